#!/bin/sh
# ./check selftest [ids...] : must-fail corpus. Every seeded change under seeded/<id>/ is applied to a
# scratch clone of /repo (outside /repo and /verif, removed afterwards); the check of its property,
# run against that clone with a scratch copy of /verif, must report a VIOLATION; the unchanged
# clone must pass. Exit 0 when every seed is caught.
cd "$(dirname "$0")/.." || exit 2
V=$(pwd)
ids="$@"
[ -z "$ids" ] && ids=$(ls seeded)
T=${TMPDIR:-/tmp}/kvc-selftest-$$
mkdir -p $T || exit 2
trap 'rm -rf $T' EXIT INT TERM
sv=$T/verif
mkdir -p $sv
for d in contracts baseline monitor bin golden; do cp -r $V/$d $sv/ 2>/dev/null; done
cp $V/props.json $V/known_findings.json $V/MANIFEST.json $sv/
[ -x $sv/bin/kvc ] || { echo "selftest: build kvc first (./check C14 quick)"; exit 2; }
run_one() {
  id=$1
  prop=$(jq -r .property $V/seeded/$id/meta.json)
  c=$T/repo-$id
  git clone -q --shared /repo $c || return 2
  (cd $c && git apply $V/seeded/$id/patch.diff) || { echo "$id: patch does not apply"; rm -rf $c; return 1; }
  mkdir -p $T/v-$id && cp -r $sv/. $T/v-$id/
  out=$(KVC_REPO=$c KVC_VERIF=$T/v-$id $sv/bin/kvc check $prop quick 2>&1); rc=$?
  n=$(echo "$out" | grep -c "^VIOLATION property=$prop ")
  first=$(echo "$out" | grep "^VIOLATION" | head -1 | sed 's/replay=[^ ]* //' | cut -c1-170)
  rm -rf $c $T/v-$id
  if [ $rc -eq 1 ] && [ $n -ge 1 ]; then echo "$id: caught ($n) $first"; return 0; fi
  echo "$id: MISSED (rc=$rc) $(echo "$out" | tail -1)"; return 1
}
fail=0
par=${KVC_SELFTEST_PAR:-3}
n=0
for id in $ids; do
  ( run_one $id || echo "$id" >> $T/failed ) &
  n=$((n+1))
  if [ $((n % par)) -eq 0 ]; then wait; fi
done
wait
[ -s $T/failed ] && fail=1
[ $fail = 0 ] && echo "selftest: every seeded change is caught" || echo "selftest: some seeded change was missed"
exit $fail
