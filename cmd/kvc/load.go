package main

import (
	"crypto/sha256"
	"fmt"
	"go/token"
	"go/types"
	"os"
	"path/filepath"
	"sort"
	"strings"

	"golang.org/x/tools/go/packages"
	"golang.org/x/tools/go/ssa"
	"golang.org/x/tools/go/ssa/ssautil"
)

const modPath = "github.com/flanglet/kanzi-go/v2"

type Loaded struct {
	fset  *token.FileSet
	pkgs  []*packages.Package
	prog  *ssa.Program
	spkgs map[string]*ssa.Package
	tpkgs map[string]*packages.Package
	fieldOwner map[*types.Var]string
	repo  string
	fileHashes map[string]string
}

func repoDir() string {
	if d := os.Getenv("KVC_REPO"); d != "" {
		return d
	}
	return "/repo"
}

func verifDir() string {
	if d := os.Getenv("KVC_VERIF"); d != "" {
		return d
	}
	return "/verif"
}

func loadRepo(patterns ...string) (*Loaded, error) {
	repo := repoDir()
	cfg := &packages.Config{Mode: packages.LoadAllSyntax, Dir: filepath.Join(repo, "v2"), BuildFlags: []string{"-tags=verif"},
		Env: append(os.Environ(), "GOFLAGS=-mod=mod", "GOPROXY=off")}
	if len(patterns) == 0 {
		patterns = []string{"./..."}
	}
	pkgs, err := packages.Load(cfg, patterns...)
	if err != nil {
		return nil, err
	}
	nerr := 0
	packages.Visit(pkgs, nil, func(p *packages.Package) {
		for _, e := range p.Errors {
			if strings.HasPrefix(p.PkgPath, modPath) {
				fmt.Fprintf(os.Stderr, "load error: %s: %v\n", p.PkgPath, e)
				nerr++
			}
		}
	})
	if nerr > 0 {
		return nil, fmt.Errorf("%d load errors", nerr)
	}
	prog, spkgs := ssautil.AllPackages(pkgs, ssa.NaiveForm)
	prog.Build()
	ld := &Loaded{pkgs: pkgs, prog: prog, spkgs: map[string]*ssa.Package{}, tpkgs: map[string]*packages.Package{}, fieldOwner: map[*types.Var]string{}, repo: repo, fileHashes: map[string]string{}}
	if len(pkgs) > 0 {
		ld.fset = pkgs[0].Fset
	}
	for i, p := range pkgs {
		if spkgs[i] != nil {
			ld.spkgs[p.PkgPath] = spkgs[i]
		}
		ld.tpkgs[p.PkgPath] = p
		for _, f := range p.GoFiles {
			if b, err := os.ReadFile(f); err == nil {
				ld.fileHashes[f] = fmt.Sprintf("%x", sha256.Sum256(b))
			}
		}
	}
	// field owners for every named struct type of every loaded package
	packages.Visit(pkgs, nil, func(p *packages.Package) {
		if p.Types == nil {
			return
		}
		sc := p.Types.Scope()
		for _, n := range sc.Names() {
			tn, ok := sc.Lookup(n).(*types.TypeName)
			if !ok {
				continue
			}
			if stt, ok := tn.Type().Underlying().(*types.Struct); ok {
				for i := 0; i < stt.NumFields(); i++ {
					if _, dup := ld.fieldOwner[stt.Field(i)]; !dup {
						ld.fieldOwner[stt.Field(i)] = p.Types.Name() + "." + n
					}
				}
			}
		}
	})
	return ld, nil
}

// loadContracts reads the contract files: /repo/v2/<pkg>/contracts_verif.go,
// or the mirror /verif/contracts/<pkg>.contracts when the former is absent
// (or when KVC_DEV=1).
func loadContracts(ld *Loaded) (*Contracts, []string, error) {
	cs := &Contracts{Funcs: map[string]*FuncContract{}, Specs: map[string]*SpecFunc{}, Ghosts: map[string]*GhostField{}}
	var warnings []string
	var paths []string
	for p := range ld.tpkgs {
		paths = append(paths, p)
	}
	sort.Strings(paths)
	for _, pp := range paths {
		if !strings.HasPrefix(pp, modPath) {
			continue
		}
		rel := strings.TrimPrefix(strings.TrimPrefix(pp, modPath), "/")
		name := rel
		if name == "" {
			name = "kanzi"
		}
		repoFile := filepath.Join(ld.repo, "v2", rel, "contracts_verif.go")
		mirror := filepath.Join(verifDir(), "contracts", strings.ReplaceAll(name, "/", "_")+".contracts")
		use := ""
		if _, err := os.Stat(repoFile); err == nil && os.Getenv("KVC_DEV") != "1" {
			use = repoFile
		} else if _, err := os.Stat(mirror); err == nil {
			use = mirror
			if os.Getenv("KVC_DEV") != "1" {
				warnings = append(warnings, fmt.Sprintf("contracts for %s taken from the mirror %s (not present in the repository)", pp, mirror))
			}
		}
		if use == "" {
			continue
		}
		if err := parseContractFile(use, pp, cs); err != nil {
			return nil, warnings, err
		}
	}
	// bind parameter types
	for key, fc := range cs.Funcs {
		fc.ParamTypes = map[string]types.Type{}
		if fc.IsIface {
			m := ld.findIfaceMethod(strings.TrimPrefix(key, "iface "))
			if m == nil {
				return nil, warnings, fmt.Errorf("%s:%d: interface method %s not found", fc.File, fc.Line, key)
			}
			sig := m.Type().(*types.Signature)
			fc.ParamTypes["this"] = sig.Recv().Type()
			for i, n := range fc.IfaceParams {
				if i < sig.Params().Len() {
					fc.ParamTypes[n] = sig.Params().At(i).Type()
				}
			}
			continue
		}
		fn := ld.findFunc(fc.Pkg, fc.Key)
		if fn == nil {
			// reported by the checks of the properties this contract belongs to, not by every check
			fc.Missing = true
			warnings = append(warnings, fmt.Sprintf("%s:%d: function %s not found in %s", fc.File, fc.Line, fc.Key, fc.Pkg))
			continue
		}
		for _, p := range fn.Params {
			fc.ParamTypes[p.Name()] = p.Type()
		}
	}
	return cs, warnings, nil
}

func (ld *Loaded) findIfaceMethod(key string) *types.Func {
	// key: pkgname.Type.Method
	parts := strings.Split(key, ".")
	if len(parts) != 3 {
		return nil
	}
	var found *types.Func
	packages.Visit(ld.pkgs, nil, func(p *packages.Package) {
		if found != nil || p.Types == nil || p.Types.Name() != parts[0] {
			return
		}
		if obj := p.Types.Scope().Lookup(parts[1]); obj != nil {
			if it, ok := obj.Type().Underlying().(*types.Interface); ok {
				for i := 0; i < it.NumExplicitMethods(); i++ {
					if it.ExplicitMethod(i).Name() == parts[2] {
						found = it.ExplicitMethod(i)
					}
				}
			}
		}
	})
	return found
}

// findFunc resolves "(*T).Name", "(T).Name" or "Name" in a package.
func (ld *Loaded) findFunc(pkgPath, key string) *ssa.Function {
	if i := strings.Index(key, "/"); i >= 0 {
		key = key[:i] // contract variant, e.g. "(*T).f/rg"
	}
	sp := ld.spkgs[pkgPath]
	if sp == nil {
		return nil
	}
	if strings.HasPrefix(key, "(") {
		i := strings.Index(key, ")")
		recv := key[1:i]
		name := strings.TrimPrefix(key[i+1:], ".")
		ptr := strings.HasPrefix(recv, "*")
		recv = strings.TrimPrefix(recv, "*")
		tn, ok := sp.Pkg.Scope().Lookup(recv).(*types.TypeName)
		if !ok {
			return nil
		}
		var t types.Type = tn.Type()
		if ptr {
			t = types.NewPointer(t)
		}
		sel := ld.prog.MethodSets.MethodSet(t).Lookup(sp.Pkg, name)
		if sel == nil {
			return nil
		}
		return ld.prog.MethodValue(sel)
	}
	if f, ok := sp.Members[key].(*ssa.Function); ok {
		return f
	}
	return nil
}
