package main

// Panic containment of spawned goroutines (C03): a panic that leaves the
// function run by a `go` statement kills the process, whatever recover the
// spawning function has. For every `go` statement of the module the obligation
//
//	<function>#go-contained@k : no panic leaves the spawned function
//
// is generated. It is decided on the SSA form, without a solver:
//   - the spawned function is "recover-first": its entry block registers,
//     before any instruction that may panic, a deferred function literal whose
//     body calls recover() unconditionally at its start; or
//   - every instruction of the spawned function that may panic is a call of a
//     recover-first function (the worker-loop shape of the CLI), channel
//     operations and calls of sync.WaitGroup methods being considered
//     panic-free (their panics do not depend on the data being decoded; this
//     is recorded as an assumption).
// The command-line package (app) is not covered: its worker goroutines run
// fileDecompressTask.call, which has no recover of its own; no data-dependent
// panic source is known there, so nothing is claimed about it.
// Functions spawned under a contract with `opt panics caught` are in addition
// verified by the symbolic executor (nopanic:escapes obligations).

import (
	"fmt"
	"go/token"
	"go/types"
	"sort"
	"strings"

	"golang.org/x/tools/go/ssa"
)

type containObl struct {
	Name   string
	OK     bool
	Detail string
	Pos    token.Position
}

func goContainedObligations(ld *Loaded) []containObl {
	var out []containObl
	var fns []*ssa.Function
	for path, sp := range ld.spkgs {
		if !strings.HasPrefix(path, modPath) || strings.HasSuffix(path, "/benchmark") || strings.HasSuffix(path, "/app") {
			continue
		}
		for _, m := range sp.Members {
			switch m := m.(type) {
			case *ssa.Function:
				fns = append(fns, m)
			case *ssa.Type:
				for _, t := range []types.Type{m.Type(), types.NewPointer(m.Type())} {
					ms := ld.prog.MethodSets.MethodSet(t)
					for i := 0; i < ms.Len(); i++ {
						if f := ld.prog.MethodValue(ms.At(i)); f != nil && f.Pkg == sp && f.Synthetic == "" {
							fns = append(fns, f)
						}
					}
				}
			}
		}
	}
	seen := map[*ssa.Function]bool{}
	var all []*ssa.Function
	var walk func(f *ssa.Function)
	walk = func(f *ssa.Function) {
		if f == nil || seen[f] || f.Blocks == nil {
			return
		}
		seen[f] = true
		all = append(all, f)
		for _, a := range f.AnonFuncs {
			walk(a)
		}
	}
	for _, f := range fns {
		walk(f)
	}
	sort.Slice(all, func(i, j int) bool { return ssaFnName(all[i]) < ssaFnName(all[j]) })
	for _, f := range all {
		if pos := ld.fset.Position(f.Pos()); strings.HasSuffix(pos.Filename, "_test.go") {
			continue
		}
		k := 0
		for _, b := range f.Blocks {
			for _, in := range b.Instrs {
				g, ok := in.(*ssa.Go)
				if !ok {
					continue
				}
				k++
				name := fmt.Sprintf("%s#go-contained@%d", ssaFnName(f), k)
				callee := staticCallee(g.Call)
				o := containObl{Name: name, Pos: ld.fset.Position(g.Pos())}
				if callee == nil {
					o.Detail = "the spawned function is not statically known"
				} else if recoverFirst(callee) {
					o.OK = true
					o.Detail = ssaFnName(callee) + " registers a recovering deferred function before anything that may panic"
				} else if why := firstEscape(callee); why == "" {
					o.OK = true
					o.Detail = ssaFnName(callee) + " only calls functions that recover their own panics"
				} else {
					o.Detail = ssaFnName(callee) + ": " + why
				}
				out = append(out, o)
			}
		}
	}
	return out
}

func ssaFnName(f *ssa.Function) string {
	s := f.String()
	s = strings.ReplaceAll(s, modPath+"/", "")
	s = strings.ReplaceAll(s, modPath, "kanzi")
	s = strings.ReplaceAll(s, "(*", "")
	s = strings.ReplaceAll(s, "(", "")
	s = strings.ReplaceAll(s, ")", "")
	return s
}

func staticCallee(c ssa.CallCommon) *ssa.Function {
	if c.IsInvoke() {
		return nil
	}
	switch v := c.Value.(type) {
	case *ssa.Function:
		return v
	case *ssa.MakeClosure:
		if f, ok := v.Fn.(*ssa.Function); ok {
			return f
		}
	}
	return nil
}

// recoverFirst: the entry block defers a recovering function literal before
// any instruction that may panic.
func recoverFirst(f *ssa.Function) bool {
	if len(f.Blocks) == 0 {
		return false
	}
	for _, in := range f.Blocks[0].Instrs {
		if d, ok := in.(*ssa.Defer); ok {
			if h := staticCallee(d.Call); h != nil && recovers(h) {
				return true
			}
			// another deferred call (wg.Done): harmless, keep looking
			continue
		}
		if mayPanic(in, nil) != "" {
			return false
		}
	}
	return false
}

// recovers: the function calls recover() in its entry block before anything that may panic.
func recovers(h *ssa.Function) bool {
	if len(h.Blocks) == 0 {
		return false
	}
	for _, in := range h.Blocks[0].Instrs {
		if c, ok := in.(*ssa.Call); ok {
			if b, ok := c.Call.Value.(*ssa.Builtin); ok && b.Name() == "recover" {
				return true
			}
		}
		if mayPanic(in, nil) != "" {
			return false
		}
	}
	return false
}

// firstEscape returns a description of the first instruction of f through
// which a panic may leave f, or "".
func firstEscape(f *ssa.Function) string {
	for _, b := range f.Blocks {
		for _, in := range b.Instrs {
			if why := mayPanic(in, f); why != "" {
				return why
			}
		}
	}
	return ""
}

func mayPanic(in ssa.Instruction, f *ssa.Function) string {
	pos := func() string {
		if f == nil || f.Prog == nil {
			return ""
		}
		p := f.Prog.Fset.Position(in.Pos())
		return fmt.Sprintf(" (line %d)", p.Line)
	}
	switch x := in.(type) {
	case *ssa.Call:
		if b, ok := x.Call.Value.(*ssa.Builtin); ok {
			switch b.Name() {
			case "len", "cap", "recover", "min", "max", "print", "println", "append", "copy", "real", "imag", "complex", "new":
				return ""
			}
			if strings.HasPrefix(b.Name(), "ssa:") {
				return ""
			}
			return "builtin " + b.Name() + " may panic" + pos()
		}
		if x.Call.IsInvoke() {
			return "interface method call " + x.Call.Method.Name() + " may panic" + pos()
		}
		callee := staticCallee(x.Call)
		if callee == nil {
			return "dynamic call may panic" + pos()
		}
		if callee.Pkg != nil {
			switch callee.Pkg.Pkg.Path() {
			case "sync", "sync/atomic", "time", "runtime", "errors", "math", "math/bits", "strings", "fmt":
				// standard library calls whose panics (if any) do not depend on the data being decoded
				return ""
			}
		}
		if recoverFirst(callee) {
			return ""
		}
		return "call of " + ssaFnName(callee) + ", which does not recover its panics" + pos()
	case *ssa.Panic:
		return "explicit panic" + pos()
	case *ssa.IndexAddr:
		if _, isArrPtr := x.X.Type().Underlying().(*types.Pointer); isArrPtr {
			if c, ok := x.Index.(*ssa.Const); ok && c.Value != nil {
				return ""
			}
		}
		return "index expression may panic" + pos()
	case *ssa.Index:
		if _, ok := x.Index.(*ssa.Const); ok {
			if _, isArr := x.X.Type().Underlying().(*types.Array); isArr {
				return ""
			}
		}
		return "index expression may panic" + pos()
	case *ssa.Slice:
		return "slice expression may panic" + pos()
	case *ssa.TypeAssert:
		if !x.CommaOk {
			return "type assertion may panic" + pos()
		}
	case *ssa.BinOp:
		if x.Op == token.QUO || x.Op == token.REM {
			if isInteger(x.X.Type()) {
				if c, ok := x.Y.(*ssa.Const); ok && c.Value != nil && c.Value.String() != "0" {
					return ""
				}
				return "integer division may panic" + pos()
			}
		}
	case *ssa.MapUpdate:
		return "map update may panic (nil map)" + pos()
	case *ssa.Go:
		return ""
	case *ssa.SliceToArrayPointer:
		return "slice to array conversion may panic" + pos()
	}
	return ""
}
