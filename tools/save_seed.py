#!/usr/bin/env python3
"""usage: tools/save_seed.py <seed dir> <name> <property> <caught_by text>... : copies a sub-agent's seed into /verif/seeded/<name>/"""
import json, os, shutil, re, sys
src, name, prop = sys.argv[1], sys.argv[2], sys.argv[3]
caught = sys.argv[4:]
dst = f"/verif/seeded/{name}"
os.makedirs(dst, exist_ok=True)
shutil.copy(src + "/patch.diff", dst + "/patch.diff")
shutil.copy(src + "/kvc_seed_test.go", dst + "/demo_test.go.txt")
if os.path.exists(src + "/notes.md"):
    shutil.copy(src + "/notes.md", dst + "/notes.md")
demo = open(src + "/demo_path.txt").read().strip().split("\n")[0]
files = re.findall(r"^\+\+\+ b/(.*)$", open(src + "/patch.diff").read(), re.M)
meta = {"property": prop, "origin": "fresh sub-agent given only the property text and a scratch worktree", "files_changed": files,
        "demo_test_path_in_repo": demo, "demo_source": "demo_test.go.txt (copy to the path above; -run KvcSeed)",
        "confirmed": {"demo_without_change": "pass", "demo_with_change": "fail", "pinned_suite_with_change": "pass",
                      "how": "tools/confirm_seed.sh in a scratch clone under /tmp (removed)"},
        "caught_by": caught, "how_to_test": f"./check selftest {name}"}
json.dump(meta, open(dst + "/meta.json", "w"), indent=1)
print("saved", dst)
