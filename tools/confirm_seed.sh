#!/bin/sh
# usage: tools/confirm_seed.sh <seed dir with patch.diff, kvc_seed_test.go, demo_path.txt> <id>
# Confirms a seeded change in a scratch clone under /tmp (removed afterwards):
#  demo passes without the change, fails with it, pinned suite passes with it.
src="$1"; id="$2"
[ -f $src/demo_path.txt ] || { mkdir -p /tmp/cs-$id; cp $src/patch.diff /tmp/cs-$id/; cp $src/demo_test.go.txt /tmp/cs-$id/kvc_seed_test.go; python3 -c "import json;print(json.load(open(\"$src/meta.json\"))[\"demo_test_path_in_repo\"])" > /tmp/cs-$id/demo_path.txt; src=/tmp/cs-$id; }
wt=/tmp/confirm-$id
rm -rf $wt; git clone -q --shared /repo $wt || exit 2
export GOPROXY=off GOFLAGS=-mod=mod
demo=$(cat $src/demo_path.txt | head -1)
pkgdir=$(dirname $demo)
cp $src/kvc_seed_test.go $wt/$demo
(cd $wt/$pkgdir && go test -vet=off -count=1 -timeout 10m -run 'Seed|KVC|Kvc' . > /tmp/confirm-$id.without.log 2>&1); rc_without=$?
(cd $wt && git apply $src/patch.diff) || { echo "$id patch does not apply"; rm -rf $wt; exit 2; }
(cd $wt/$pkgdir && go test -vet=off -count=1 -timeout 10m -run 'Seed|KVC|Kvc' . > /tmp/confirm-$id.with.log 2>&1); rc_with=$?
rm -f $wt/$demo
(cd $wt/v2 && go test -vet=off -count=1 -timeout 25m ./... > /tmp/confirm-$id.suite.log 2>&1); rc_suite=$?
echo "$id demo_without=$rc_without demo_with=$rc_with suite_with=$rc_suite"
rm -rf $wt
