package main

import (
	"fmt"
	"go/types"
	"sort"
	"strings"

	"golang.org/x/tools/go/ssa"
)

// ---------------------------------------------------------------------
// symbolic values

type Val interface{}

type (
	Sc         struct{ T Term }          // scalar SMT term
	Agg        struct{ F []Val }         // struct / tuple value
	LocalAddr  struct{ A *ssa.Alloc }    // address of a non-escaping local cell
	FieldAddrV struct {                  // address of a field of object Obj
		Obj Term
		Fld *types.Var
	}
	ElemAddrV struct { // address of element Idx of array object Base
		Base Term
		Idx  Term
		Elem types.Type
	}
	FuncV struct { // function value / closure
		Fn       *ssa.Function
		Bindings []Val
	}
	GlobalAddr struct{ G *ssa.Global }
)

type deferRec struct {
	fn   Val // FuncV or Sc
	args []Val
	call *ssa.CallCommon
}

type spawnRec struct {
	fn    *ssa.Function
	args  []Val
	reach Term
	site  *ssa.Go
}

// State is the symbolic machine state at one program point.
type State struct {
	reach  Term
	locals map[*ssa.Alloc]Val
	heaps  map[string]Term // heap name -> current array term
	vars   map[string]Term // allocptr, panicking, ghost scalars
	defers []*deferRec
	spawned []*spawnRec
}

func (s *State) clone() *State {
	n := &State{reach: s.reach, locals: make(map[*ssa.Alloc]Val, len(s.locals)), heaps: make(map[string]Term, len(s.heaps)), vars: make(map[string]Term, len(s.vars))}
	for k, v := range s.locals {
		n.locals[k] = v
	}
	for k, v := range s.heaps {
		n.heaps[k] = v
	}
	for k, v := range s.vars {
		n.vars[k] = v
	}
	n.defers = append([]*deferRec(nil), s.defers...)
	n.spawned = append([]*spawnRec(nil), s.spawned...)
	return n
}

// heap returns the current term of a heap, declaring its initial version on
// first use.
func (ex *Exec) heap(st *State, name, sort string) Term {
	if ex.readLog != nil {
		ex.readLog[name] = true
	}
	if t, ok := st.heaps[name]; ok {
		return t
	}
	ex.cx.heapSorts[name] = sort
	init := mangle(name) + "!0"
	if !ex.cx.declared[init] {
		ex.cx.declConst(init, sort)
		ex.typeHeap(name, Term{init, sort})
		ex.initialHeapRefsOld(Term{init, sort})
	}
	return Term{init, sort}
}

// typeHeap states that every cell of a (fresh) field heap holds a value of
// the field's Go type (well-typedness of the heap).
func (ex *Exec) typeHeap(name string, h Term) {
	t, ok := ex.heapElemType[name]
	if !ok && strings.HasSuffix(name, "#len") {
		t, ok = types.Typ[types.Uint32], true
	}
	if !ok || ex.cx.mode != "int" || !isInteger(t) || elemSortOf(h.Sort) != SInt {
		return
	}
	if strings.HasPrefix(h.S, "(") {
		return
	}
	lo, hi := typeRange(t)
	ex.cx.assume(Term{fmt.Sprintf("(forall ((r!t Ref)) (! (and (<= %s (select %s r!t)) (<= (select %s r!t) %s)) :pattern ((select %s r!t))))", bigLit(lo).S, h.S, h.S, bigLit(hi).S, h.S), SBool})
}

// initialHeapRefsOld: every reference stored in the initial heap designates an
// object allocated before the function was entered.
func (ex *Exec) initialHeapRefsOld(h Term) {
	es := elemSortOf(h.Sort)
	cell := Term{"(select " + h.S + " r!o)", es}
	var ref Term
	switch es {
	case SRef:
		ref = cell
	case SSlice:
		ref = app(SRef, "sarr", cell)
	case SIface:
		ref = app(SRef, "ival", cell)
	default:
		return
	}
	ex.cx.declConst("allocptr!0", SInt)
	ap0 := Term{"allocptr!0", SInt}
	// only cells of objects that exist at entry (cells at addresses allocated
	// later are initialised by whoever allocates them)
	ex.cx.assume(Term{fmt.Sprintf("(forall ((r!o Ref)) (! (=> %s %s) :pattern (%s)))", ex.refOldStrict(Term{"r!o", SRef}, ap0).S, ex.refOld(ref, ap0).S, cell.S), SBool})
}

func (ex *Exec) freshHeap(prefix, name, sort string) Term {
	h := ex.cx.fresh(prefix+name, sort)
	ex.typeHeap(name, h)
	return h
}

func (ex *Exec) setHeap(st *State, name string, t Term) {
	ex.cx.heapSorts[name] = t.Sort
	st.heaps[name] = t
}

func (ex *Exec) varOf(st *State, name, sort string) Term {
	if t, ok := st.vars[name]; ok {
		return t
	}
	init := mangle(name) + "!0"
	ex.cx.declConst(init, sort)
	return Term{init, sort}
}

// ---------------------------------------------------------------------
// merging

type edgeState struct {
	st   *State
	cond Term // edge condition (already conjoined into st.reach by caller? no: separate)
}

func valEqual(a, b Val) bool {
	switch x := a.(type) {
	case Sc:
		y, ok := b.(Sc)
		return ok && x.T.S == y.T.S
	case Agg:
		y, ok := b.(Agg)
		if !ok || len(x.F) != len(y.F) {
			return false
		}
		for i := range x.F {
			if !valEqual(x.F[i], y.F[i]) {
				return false
			}
		}
		return true
	case LocalAddr:
		y, ok := b.(LocalAddr)
		return ok && x.A == y.A
	case FieldAddrV:
		y, ok := b.(FieldAddrV)
		return ok && x.Fld == y.Fld && x.Obj.S == y.Obj.S
	case ElemAddrV:
		y, ok := b.(ElemAddrV)
		return ok && x.Base.S == y.Base.S && x.Idx.S == y.Idx.S
	case FuncV:
		y, ok := b.(FuncV)
		return ok && x.Fn == y.Fn
	case GlobalAddr:
		y, ok := b.(GlobalAddr)
		return ok && x.G == y.G
	case nil:
		return b == nil
	}
	return false
}

// mergeVals builds the value that equals vals[i] under guards[i].
func (ex *Exec) mergeVals(prefix string, vals []Val, guards []Term) Val {
	same := true
	for i := 1; i < len(vals); i++ {
		if !valEqual(vals[0], vals[i]) {
			same = false
			break
		}
	}
	if same {
		return vals[0]
	}
	switch x := vals[0].(type) {
	case Sc:
		v := ex.cx.fresh(prefix, x.T.Sort)
		for i, vi := range vals {
			s, ok := vi.(Sc)
			if !ok {
				ex.cx.unsup("merge of differently shaped values (%s)", prefix)
				continue
			}
			ex.cx.assume(implies(guards[i], eq(v, s.T)))
		}
		return Sc{v}
	case Agg:
		out := Agg{F: make([]Val, len(x.F))}
		for k := range x.F {
			var sub []Val
			for _, vi := range vals {
				a, ok := vi.(Agg)
				if !ok || len(a.F) != len(x.F) {
					ex.cx.unsup("merge of differently shaped aggregates (%s)", prefix)
					return vals[0]
				}
				sub = append(sub, a.F[k])
			}
			out.F[k] = ex.mergeVals(fmt.Sprintf("%s.%d", prefix, k), sub, guards)
		}
		return out
	default:
		// addresses / function values: materialise to Ref terms when possible
		var ts []Val
		for _, vi := range vals {
			t, ok := ex.materialize(vi)
			if !ok {
				ex.cx.unsup("merge of non-scalar values (%s: %T)", prefix, vi)
				return vals[0]
			}
			ts = append(ts, Sc{t})
		}
		return ex.mergeVals(prefix, ts, guards)
	}
}

func (ex *Exec) mergeStates(label string, ins []edgeState) *State {
	if len(ins) == 0 {
		return nil
	}
	if len(ins) == 1 {
		st := ins[0].st.clone()
		st.reach = ex.cx.name("r", and(st.reach, ins[0].cond))
		return st
	}
	guards := make([]Term, len(ins))
	for i, e := range ins {
		guards[i] = ex.cx.name("g", and(e.st.reach, e.cond))
	}
	out := &State{locals: map[*ssa.Alloc]Val{}, heaps: map[string]Term{}, vars: map[string]Term{}}
	r := ex.cx.fresh("r_"+label, SBool)
	ex.cx.assume(eq(r, or(guards...)))
	out.reach = r
	// locals: intersection
	var allocs []*ssa.Alloc
	for a := range ins[0].st.locals {
		all := true
		for _, e := range ins[1:] {
			if _, ok := e.st.locals[a]; !ok {
				all = false
				break
			}
		}
		if all {
			allocs = append(allocs, a)
		}
	}
	sort.Slice(allocs, func(i, j int) bool { return allocs[i].Pos() < allocs[j].Pos() || (allocs[i].Pos() == allocs[j].Pos() && allocs[i].Name() < allocs[j].Name()) })
	for _, a := range allocs {
		vals := make([]Val, len(ins))
		for i, e := range ins {
			vals[i] = e.st.locals[a]
		}
		out.locals[a] = ex.mergeVals("l_"+a.Comment, vals, guards)
	}
	// heaps: union of names
	names := map[string]bool{}
	for _, e := range ins {
		for n := range e.st.heaps {
			names[n] = true
		}
	}
	for _, n := range sortedKeysB(names) {
		vals := make([]Val, len(ins))
		for i, e := range ins {
			vals[i] = Sc{ex.heap(e.st, n, ex.cx.heapSorts[n])}
		}
		out.heaps[n] = ex.mergeHeapTerms("h_"+n, vals, guards, 0)
		ex.typeHeap(n, out.heaps[n])
	}
	vnames := map[string]bool{}
	for _, e := range ins {
		for n := range e.st.vars {
			vnames[n] = true
		}
	}
	for _, n := range sortedKeysB(vnames) {
		vals := make([]Val, len(ins))
		var srt string
		for _, e := range ins {
			if t, ok := e.st.vars[n]; ok {
				srt = t.Sort
			}
		}
		for i, e := range ins {
			vals[i] = Sc{ex.varOf(e.st, n, srt)}
		}
		out.vars[n] = ex.mergeVals("v_"+n, vals, guards).(Sc).T
	}
	// defers must agree
	out.defers = append([]*deferRec(nil), ins[0].st.defers...)
	for _, e := range ins[1:] {
		if len(e.st.defers) != len(out.defers) {
			ex.cx.unsup("defer stacks differ at merge (%s)", label)
			if len(e.st.defers) > len(out.defers) {
				out.defers = append([]*deferRec(nil), e.st.defers...)
			}
		}
	}
	for _, e := range ins {
		out.spawned = append(out.spawned, e.st.spawned...)
	}
	out.spawned = dedupSpawn(out.spawned)
	return out
}

// mergeHeapTerms merges heap terms; when all of them are stores into the same
// heap at the same reference only the stored contents are merged, so that the
// frame of every other reference stays syntactically visible.
func (ex *Exec) mergeHeapTerms(prefix string, vals []Val, guards []Term, depth int) Term {
	first := vals[0].(Sc).T
	same := true
	for _, v := range vals[1:] {
		if v.(Sc).T.S != first.S {
			same = false
			break
		}
	}
	if same {
		return first
	}
	if depth < 3 {
		h0, i0, v0, ok := splitStore(expandDef(first.S))
		if ok {
			all := true
			var contents []Val
			var inner []Val
			sameInner, sameContent := true, true
			for _, v := range vals {
				h, i, c, ok2 := splitStore(expandDef(v.(Sc).T.S))
				if !ok2 || i != i0 {
					all = false
					break
				}
				if h != h0 {
					sameInner = false
				}
				if c != v0 {
					sameContent = false
				}
				contents = append(contents, Sc{Term{c, elemSortOf(first.Sort)}})
				inner = append(inner, Sc{Term{h, first.Sort}})
			}
			if all && sameInner {
				mc := ex.mergeVals(prefix+"_c", contents, guards).(Sc).T
				return store(Term{h0, first.Sort}, Term{i0, idxSortOf(first.Sort)}, mc)
			}
			if all && sameContent {
				mh := ex.mergeHeapTerms(prefix, inner, guards, depth+1)
				return store(mh, Term{i0, idxSortOf(first.Sort)}, Term{v0, elemSortOf(first.Sort)})
			}
		}
	}
	return ex.mergeVals(prefix, vals, guards).(Sc).T
}

func dedupSpawn(in []*spawnRec) []*spawnRec {
	seen := map[*spawnRec]bool{}
	var out []*spawnRec
	for _, s := range in {
		if !seen[s] {
			seen[s] = true
			out = append(out, s)
		}
	}
	return out
}

func sortedKeysB(m map[string]bool) []string {
	var ks []string
	for k := range m {
		ks = append(ks, k)
	}
	sort.Strings(ks)
	return ks
}

// materialize turns an address value into a Ref term.
func (ex *Exec) materialize(v Val) (Term, bool) {
	switch x := v.(type) {
	case Sc:
		return x.T, true
	case FieldAddrV:
		return app(SRef, "fld", x.Obj, intLit(int64(ex.cx.fieldID(x.Fld)))), true
	case ElemAddrV:
		return app(SRef, "elem", x.Base, x.Idx), true
	case GlobalAddr:
		return ex.globalRef(x.G), true
	case FuncV:
		// function values are opaque references
		name := "fn$" + mangle(x.Fn.String())
		ex.cx.declConst(name, SRef)
		return Term{name, SRef}, true
	}
	return Term{}, false
}

func (ex *Exec) globalRef(g *ssa.Global) Term {
	name := "glob$" + mangle(g.String())
	ex.cx.declConst(name, SRef)
	return Term{name, SRef}
}
