package main

import (
	"fmt"
	"go/token"
	"go/types"
	"math/big"
	"strings"

	"golang.org/x/tools/go/ssa"
)

type libFn func(fr *Frame, st *State, fn *ssa.Function, args []Val, p token.Pos) (Val, *State)

func (ex *Exec) libModel(fn *ssa.Function) (libFn, bool) {
	name := fn.String()
	switch name {
	case "(encoding/binary.bigEndian).Uint64":
		return ex.getUint(8, true), true
	case "(encoding/binary.bigEndian).Uint32":
		return ex.getUint(4, true), true
	case "(encoding/binary.bigEndian).Uint16":
		return ex.getUint(2, true), true
	case "(encoding/binary.littleEndian).Uint64":
		return ex.getUint(8, false), true
	case "(encoding/binary.littleEndian).Uint32":
		return ex.getUint(4, false), true
	case "(encoding/binary.littleEndian).Uint16":
		return ex.getUint(2, false), true
	case "(encoding/binary.bigEndian).PutUint64":
		return ex.putUint(8, true), true
	case "(encoding/binary.bigEndian).PutUint32":
		return ex.putUint(4, true), true
	case "(encoding/binary.bigEndian).PutUint16":
		return ex.putUint(2, true), true
	case "(encoding/binary.littleEndian).PutUint64":
		return ex.putUint(8, false), true
	case "(encoding/binary.littleEndian).PutUint32":
		return ex.putUint(4, false), true
	case "(encoding/binary.littleEndian).PutUint16":
		return ex.putUint(2, false), true
	case "sync/atomic.LoadInt32", "sync/atomic.LoadInt64", "sync/atomic.LoadUint32", "sync/atomic.LoadUint64":
		return func(fr *Frame, st *State, fn *ssa.Function, args []Val, p token.Pos) (Val, *State) {
			et := fn.Signature.Params().At(0).Type().Underlying().(*types.Pointer).Elem()
			fr.nilCheckAddr(st, args[0], p)
			if ex.rg != nil {
				return ex.rg.atomicLoad(fr, st, args[0], et, p), st
			}
			v := ex.load(st, args[0], et)
			if sc, ok := v.(Sc); ok {
				sc.T = ex.cx.name("ald", sc.T)
				ex.assumeWellTyped(sc.T, et, tTrue)
				v = sc
			}
			return v, st
		}, true
	case "sync/atomic.StoreInt32", "sync/atomic.StoreInt64", "sync/atomic.StoreUint32", "sync/atomic.StoreUint64":
		return func(fr *Frame, st *State, fn *ssa.Function, args []Val, p token.Pos) (Val, *State) {
			et := fn.Signature.Params().At(0).Type().Underlying().(*types.Pointer).Elem()
			fr.nilCheckAddr(st, args[0], p)
			if ex.rg != nil {
				ex.rg.atomicStore(fr, st, args[0], args[1], et, p)
				return nil, st
			}
			ex.store(st, args[0], args[1], et)
			return nil, st
		}, true
	case "sync/atomic.SwapInt32", "sync/atomic.SwapInt64":
		return func(fr *Frame, st *State, fn *ssa.Function, args []Val, p token.Pos) (Val, *State) {
			et := fn.Signature.Params().At(0).Type().Underlying().(*types.Pointer).Elem()
			fr.nilCheckAddr(st, args[0], p)
			old := ex.load(st, args[0], et)
			if sc, ok := old.(Sc); ok {
				sc.T = ex.cx.name("aswp", sc.T)
				ex.assumeWellTyped(sc.T, et, tTrue)
				old = sc
			}
			ex.store(st, args[0], args[1], et)
			return old, st
		}, true
	case "sync/atomic.CompareAndSwapInt32", "sync/atomic.CompareAndSwapInt64":
		return func(fr *Frame, st *State, fn *ssa.Function, args []Val, p token.Pos) (Val, *State) {
			et := fn.Signature.Params().At(0).Type().Underlying().(*types.Pointer).Elem()
			fr.nilCheckAddr(st, args[0], p)
			if ex.rg != nil {
				return ex.rg.atomicCAS(fr, st, args[0], args[1], args[2], et, p), st
			}
			cur := ex.load(st, args[0], et).(Sc).T
			okT := ex.cx.name("cas", eq(cur, args[1].(Sc).T))
			ex.store(st, args[0], Sc{ite(okT, args[2].(Sc).T, cur)}, et)
			return Sc{okT}, st
		}, true
	case "sync/atomic.AddInt32", "sync/atomic.AddInt64":
		return func(fr *Frame, st *State, fn *ssa.Function, args []Val, p token.Pos) (Val, *State) {
			et := fn.Signature.Params().At(0).Type().Underlying().(*types.Pointer).Elem()
			cur := ex.load(st, args[0], et).(Sc).T
			var nv Term
			if ex.cx.mode == "int" {
				nv = ex.cx.wrap(app(SInt, "+", cur, args[1].(Sc).T), et, true)
			} else {
				nv = app(cur.Sort, "bvadd", cur, args[1].(Sc).T)
			}
			nv = ex.cx.name("aadd", nv)
			ex.store(st, args[0], Sc{nv}, et)
			return Sc{nv}, st
		}, true
	case "errors.New", "fmt.Errorf":
		return func(fr *Frame, st *State, fn *ssa.Function, args []Val, p token.Pos) (Val, *State) {
			e := ex.cx.fresh("err", SIface)
			ex.cx.assume(not(eq(e, nilIface())))
			ex.cx.assume(eq(app(SInt, "itag", e), ex.cx.typeTag(types.NewPointer(types.Universe.Lookup("error").Type()))))
			return Sc{e}, st
		}, true
	case "(*sync.WaitGroup).Add", "(*sync.WaitGroup).Done", "(*sync.WaitGroup).Wait", "runtime.Gosched":
		return func(fr *Frame, st *State, fn *ssa.Function, args []Val, p token.Pos) (Val, *State) {
			return nil, st
		}, true
	case "strings.ToUpper", "strings.ToLower", "strings.Contains", "strings.Split", "strings.HasPrefix", "strings.TrimSpace":
		if ex.cx.strMode {
			return ex.stringsModel(name), true
		}
		if name == "strings.ToUpper" {
			return func(fr *Frame, st *State, fn *ssa.Function, args []Val, p token.Pos) (Val, *State) {
				ex.cx.declFun("str$upper", []string{SInt}, SInt)
				return Sc{app(SInt, "str$upper", args[0].(Sc).T)}, st
			}, true
		}
	}
	if strings.HasPrefix(name, "fmt.Sprint") {
		return func(fr *Frame, st *State, fn *ssa.Function, args []Val, p token.Pos) (Val, *State) {
			return Sc{ex.cx.fresh("sprintf", ex.cx.strSort())}, st
		}, true
	}
	return nil, false
}

func (ex *Exec) libMods(fn *ssa.Function, c *ssa.CallCommon, ms *modSet, blocks map[*ssa.BasicBlock]bool) {
	name := fn.String()
	switch {
	case strings.Contains(name, ").PutUint"):
		ex.sliceArgSite(c.Args[len(c.Args)-2], ms)
	case strings.HasPrefix(name, "sync/atomic.Store"), strings.HasPrefix(name, "sync/atomic.Swap"), strings.HasPrefix(name, "sync/atomic.CompareAndSwap"), strings.HasPrefix(name, "sync/atomic.Add"):
		if len(c.Args) > 0 {
			et := c.Args[0].Type().Underlying().(*types.Pointer).Elem()
			ex.modsOfAddr(c.Args[0], et, ms, blocks)
		}
	case name == "errors.New" || name == "fmt.Errorf":
		ms.alloc = true
	}
}

func (ex *Exec) byteTerm(st *State, s Term, k int64) Term {
	bs := ex.byteSort()
	h := ex.heap(st, contentHeapName(bs), ex.contentSort(bs))
	return sel(sel(h, app(SRef, "sarr", s)), ex.iadd(ex.soff(s), ex.ilit(k)))
}

func (ex *Exec) getUint(n int, big_ bool) libFn {
	return func(fr *Frame, st *State, fn *ssa.Function, args []Val, p token.Pos) (Val, *State) {
		s := ex.cx.name("s", args[len(args)-1].(Sc).T)
		fr.mustHold(st, "index", ex.ile(ex.ilit(int64(n)), ex.slen(s)), p)
		rt := fn.Signature.Results().At(0).Type()
		var r Term
		if ex.cx.mode == "bv" {
			// concat of bytes
			var parts []Term
			for k := 0; k < n; k++ {
				idx := int64(k)
				if !big_ {
					idx = int64(n - 1 - k)
				}
				parts = append(parts, ex.byteTerm(st, s, idx))
			}
			r = parts[0]
			w := 8
			for _, pt := range parts[1:] {
				w += 8
				r = app(bvSort(w), "concat", r, pt)
			}
		} else {
			var sum []Term
			for k := 0; k < n; k++ {
				sh := n - 1 - k
				if !big_ {
					sh = k
				}
				b := ex.byteTerm(st, s, int64(k))
				ex.cx.assume(and(app(SBool, "<=", intLit(0), b), app(SBool, "<=", b, intLit(255))))
				if sh == 0 {
					sum = append(sum, b)
				} else {
					sum = append(sum, app(SInt, "*", bigLit(pow2(8*sh)), b))
				}
			}
			r = app(SInt, "+", sum...)
		}
		r = ex.cx.name("u", r)
		ex.assumeWellTyped(r, rt, tTrue)
		return Sc{r}, st
	}
}

func (ex *Exec) putUint(n int, big_ bool) libFn {
	return func(fr *Frame, st *State, fn *ssa.Function, args []Val, p token.Pos) (Val, *State) {
		s := ex.cx.name("s", args[len(args)-2].(Sc).T)
		v := ex.cx.name("pv", args[len(args)-1].(Sc).T)
		fr.mustHold(st, "index", ex.ile(ex.ilit(int64(n)), ex.slen(s)), p)
		bs := ex.byteSort()
		name := contentHeapName(bs)
		h := ex.heap(st, name, ex.contentSort(bs))
		arr := app(SRef, "sarr", s)
		content := sel(h, arr)
		for k := 0; k < n; k++ {
			sh := n - 1 - k
			if !big_ {
				sh = k
			}
			var b Term
			if ex.cx.mode == "bv" {
				b = app(bvSort(8), fmt.Sprintf("(_ extract %d %d)", 8*sh+7, 8*sh), v)
			} else {
				b = app(SInt, "mod", app(SInt, "div", v, bigLit(pow2(8*sh))), intLit(256))
				if sh == 0 {
					b = app(SInt, "mod", v, intLit(256))
				}
			}
			content = store(content, ex.iadd(ex.soff(s), ex.ilit(int64(k))), b)
		}
		ex.setHeap(st, name, ex.cx.name("h", store(h, arr, content)))
		return nil, st
	}
}

func (ex *Exec) stringsModel(name string) libFn {
	return func(fr *Frame, st *State, fn *ssa.Function, args []Val, p token.Pos) (Val, *State) {
		switch name {
		case "strings.ToUpper":
			return Sc{ex.cx.name("up", app(SStr, "str.to_upper", args[0].(Sc).T))}, st
		case "strings.ToLower":
			return Sc{ex.cx.name("lo", app(SStr, "str.to_lower", args[0].(Sc).T))}, st
		case "strings.Contains":
			return Sc{app(SBool, "str.contains", args[0].(Sc).T, args[1].(Sc).T)}, st
		case "strings.HasPrefix":
			return Sc{app(SBool, "str.prefixof", args[1].(Sc).T, args[0].(Sc).T)}, st
		}
		ex.cx.unsup("string function %s", name)
		return ex.unmodelledResult(fn.Signature.Results()), st
	}
}

var _ = big.NewInt
