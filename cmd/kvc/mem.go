package main

import (
	"golang.org/x/tools/go/ssa"
	"strings"
	"fmt"
	"go/types"
	"math/big"
)

// Heap naming.
//   F!<struct>.<field>   (Array Ref S)            fields, keyed by object ref
//   A!<S>                (Array Ref (Array I S))  array / slice contents
//   C!<S>                (Array Ref S)            cells behind pointers of unknown shape
//   MH!<S> / MV!<S>      map presence / values (key sort Int)
//   G!<ghost>            ghost model fields

func (ex *Exec) fieldHeapName(f *types.Var) string {
	owner := ex.fieldOwner[f]
	if owner == "" {
		owner = fmt.Sprintf("anon%d", ex.cx.fieldID(f))
	}
	name := "F!" + owner + "." + f.Name()
	if _, ok := ex.heapElemType[name]; !ok {
		ex.heapElemType[name] = f.Type()
	}
	return name
}

func contentHeapName(sort string) string { return "A!" + mangle(sort) }
func cellHeapName(sort string) string    { return "C!" + mangle(sort) }

func (ex *Exec) contentSort(elemSort string) string {
	return arrSort(SRef, arrSort(ex.cx.intS(), elemSort))
}

// zeroVal returns the zero value of a Go type.
func (ex *Exec) zeroVal(t types.Type) Val {
	if s, ok := ex.cx.sortOf(t); ok {
		return Sc{ex.zeroTerm(s)}
	}
	switch u := t.Underlying().(type) {
	case *types.Struct:
		a := Agg{}
		for i := 0; i < u.NumFields(); i++ {
			a.F = append(a.F, ex.zeroVal(u.Field(i).Type()))
		}
		return a
	case *types.Tuple:
		a := Agg{}
		for i := 0; i < u.Len(); i++ {
			a.F = append(a.F, ex.zeroVal(u.At(i).Type()))
		}
		return a
	case *types.Array:
		return arrayZero{u}
	}
	ex.cx.unsup("zero value of %s", t)
	return Sc{tNull}
}

type arrayZero struct{ T *types.Array }

func (ex *Exec) zeroTerm(sort string) Term {
	switch sort {
	case SInt:
		return intLit(0)
	case SBool:
		return tFalse
	case SRef:
		return tNull
	case SSlice:
		z := ex.izero()
		return app(SSlice, "mkslice", tNull, z, z, z)
	case SIface:
		return Term{"(mkiface 0 null)", SIface}
	case SStr:
		return Term{"\"\"", SStr}
	case SFloat:
		ex.cx.declConst("float$zero", SFloat)
		return Term{"float$zero", SFloat}
	}
	if w, ok := isBV(sort); ok {
		return bvLit(big.NewInt(0), w)
	}
	panic("zeroTerm: " + sort)
}

func (ex *Exec) izero() Term { return ex.ilit(0) }

// ilit is a literal of the index sort (Go int).
func (ex *Exec) ilit(n int64) Term {
	if ex.cx.mode == "bv" {
		return bvLit(big.NewInt(n), 64)
	}
	return intLit(n)
}

func nilIface() Term { return Term{"(mkiface 0 null)", SIface} }

// ---------------------------------------------------------------------
// loads and stores

func (ex *Exec) load(st *State, addr Val, t types.Type) Val {
	switch a := addr.(type) {
	case LocalAddr:
		v, ok := st.locals[a.A]
		if !ok {
			ex.cx.unsup("read of local %s before definition on some path", a.A.Comment)
			return ex.havocVal("undef_"+a.A.Comment, t)
		}
		return v
	case FieldAddrV:
		return ex.loadField(st, a.Obj, a.Fld)
	case ElemAddrV:
		if s, ok := ex.cx.sortOf(t); ok {
			h := ex.heap(st, contentHeapName(s), ex.contentSort(s))
			return Sc{sel(sel(h, a.Base), a.Idx)}
		}
		// struct element: object ref elem(base, idx)
		return ex.loadObject(st, app(SRef, "elem", a.Base, a.Idx), t)
	case GlobalAddr:
		// sentinel error variables of the standard library: constant, non-nil
		if a.G.Pkg != nil && a.G.Pkg.Pkg.Path() == "io" && (a.G.Name() == "EOF" || a.G.Name() == "ErrUnexpectedEOF" || a.G.Name() == "ErrShortWrite") {
			name := "glob$val$io." + a.G.Name()
			ex.cx.declConst(name, SIface)
			v := Term{name, SIface}
			ex.cx.assume(not(eq(v, nilIface())))
			ex.cx.note("io.%s is treated as a non-nil constant", a.G.Name())
			return Sc{v}
		}
		// an unexported package-level function variable that no function of its package ever
		// assigns (a diagnostics hook left nil) is nil: nothing else can set it
		if _, isFunc := t.Underlying().(*types.Signature); isFunc && !a.G.Object().Exported() && a.G.Pkg != nil && strings.HasPrefix(a.G.Pkg.Pkg.Path(), modPath) && !globalAssigned(a.G) {
			ex.cx.note("package-level function variable %s.%s is never assigned in its package: it is nil", a.G.Pkg.Pkg.Name(), a.G.Name())
			return Sc{tNull}
		}
		ref := ex.globalRef(a.G)
		return ex.loadViaRef(st, ref, t)
	case Sc:
		return ex.loadViaRef(st, a.T, t)
	}
	ex.cx.unsup("load through %T", addr)
	return ex.havocVal("ld", t)
}

func (ex *Exec) loadViaRef(st *State, ref Term, t types.Type) Val {
	if s, ok := ex.cx.sortOf(t); ok {
		// pointer to scalar: maybe a known field address
		if fa, ok := ex.asFieldAddr(ref); ok {
			return ex.loadField(st, fa.Obj, fa.Fld)
		}
		h := ex.heap(st, cellHeapName(s), arrSort(SRef, s))
		return Sc{sel(h, ref)}
	}
	return ex.loadObject(st, ref, t)
}

// asFieldAddr recognises "(fld obj k)" terms.
func (ex *Exec) asFieldAddr(ref Term) (FieldAddrV, bool) {
	p := splitSexp(ref.S)
	if len(p) == 3 && p[0] == "fld" && isNum(p[2]) {
		var id int
		fmt.Sscanf(p[2], "%d", &id)
		if f, ok := ex.cx.fieldByID[id]; ok {
			return FieldAddrV{Obj: Term{p[1], SRef}, Fld: f}, true
		}
	}
	return FieldAddrV{}, false
}

func (ex *Exec) loadField(st *State, obj Term, f *types.Var) Val {
	if s, ok := ex.cx.sortOf(f.Type()); ok {
		h := ex.heap(st, ex.fieldHeapName(f), arrSort(SRef, s))
		return Sc{sel(h, obj)}
	}
	sub := app(SRef, "fld", obj, intLit(int64(ex.cx.fieldID(f))))
	return ex.loadObject(st, sub, f.Type())
}

// loadObject loads an aggregate value stored at object ref.
func (ex *Exec) loadObject(st *State, ref Term, t types.Type) Val {
	switch u := t.Underlying().(type) {
	case *types.Struct:
		a := Agg{}
		for i := 0; i < u.NumFields(); i++ {
			a.F = append(a.F, ex.loadField(st, ref, u.Field(i)))
		}
		return a
	case *types.Array:
		return arrayAt{Base: ref, T: u}
	}
	ex.cx.unsup("load of aggregate %s", t)
	return Sc{tNull}
}

// arrayAt is an array *value* identified with the contents at Base at the
// time of the load (only used for immediate stores / range loops).
type arrayAt struct {
	Base Term
	T    *types.Array
}

func (ex *Exec) store(st *State, addr Val, v Val, t types.Type) {
	switch a := addr.(type) {
	case LocalAddr:
		st.locals[a.A] = v
	case FieldAddrV:
		ex.storeField(st, a.Obj, a.Fld, v)
	case ElemAddrV:
		if s, ok := ex.cx.sortOf(t); ok {
			name := contentHeapName(s)
			h := ex.heap(st, name, ex.contentSort(s))
			sc, ok := v.(Sc)
			if !ok {
				tm, ok2 := ex.materialize(v)
				if !ok2 {
					ex.cx.unsup("store of %T into element", v)
					return
				}
				sc = Sc{tm}
			}
			ex.setHeap(st, name, ex.cx.name("h", store(h, a.Base, store(sel(h, a.Base), a.Idx, sc.T))))
			return
		}
		ex.storeObject(st, app(SRef, "elem", a.Base, a.Idx), v, t)
	case GlobalAddr:
		ex.storeViaRef(st, ex.globalRef(a.G), v, t)
	case Sc:
		ex.storeViaRef(st, a.T, v, t)
	default:
		ex.cx.unsup("store through %T", addr)
	}
}

func (ex *Exec) storeViaRef(st *State, ref Term, v Val, t types.Type) {
	if s, ok := ex.cx.sortOf(t); ok {
		if fa, ok := ex.asFieldAddr(ref); ok {
			ex.storeField(st, fa.Obj, fa.Fld, v)
			return
		}
		name := cellHeapName(s)
		h := ex.heap(st, name, arrSort(SRef, s))
		sc := ex.scalarOf(v)
		ex.setHeap(st, name, ex.cx.name("h", store(h, ref, sc)))
		return
	}
	ex.storeObject(st, ref, v, t)
}

func (ex *Exec) scalarOf(v Val) Term {
	if sc, ok := v.(Sc); ok {
		return sc.T
	}
	t, ok := ex.materialize(v)
	if !ok {
		ex.cx.unsup("non-scalar value %T used as scalar", v)
		return tNull
	}
	return t
}

func (ex *Exec) storeField(st *State, obj Term, f *types.Var, v Val) {
	if s, ok := ex.cx.sortOf(f.Type()); ok {
		name := ex.fieldHeapName(f)
		h := ex.heap(st, name, arrSort(SRef, s))
		ex.setHeap(st, name, ex.cx.name("h", store(h, obj, ex.scalarOf(v))))
		return
	}
	sub := app(SRef, "fld", obj, intLit(int64(ex.cx.fieldID(f))))
	ex.storeObject(st, sub, v, f.Type())
}

func (ex *Exec) storeObject(st *State, ref Term, v Val, t types.Type) {
	switch u := t.Underlying().(type) {
	case *types.Struct:
		a, ok := v.(Agg)
		if !ok || len(a.F) != u.NumFields() {
			ex.cx.unsup("store of non-aggregate into struct %s", t)
			return
		}
		for i := 0; i < u.NumFields(); i++ {
			ex.storeField(st, ref, u.Field(i), a.F[i])
		}
	case *types.Array:
		es, ok := ex.cx.sortOf(u.Elem())
		if !ok {
			ex.cx.unsup("array of aggregates %s", t)
			return
		}
		name := contentHeapName(es)
		h := ex.heap(st, name, ex.contentSort(es))
		switch x := v.(type) {
		case arrayZero:
			c := Term{"((as const " + arrSort(ex.cx.intS(), es) + ") " + ex.zeroTerm(es).S + ")", arrSort(ex.cx.intS(), es)}
			ex.setHeap(st, name, ex.cx.name("h", store(h, ref, c)))
		case arrayAt:
			ex.setHeap(st, name, ex.cx.name("h", store(h, ref, sel(h, x.Base))))
		default:
			ex.cx.unsup("store of array value %T", v)
		}
	default:
		ex.cx.unsup("store of aggregate %s", t)
	}
}

// havocVal creates an unconstrained value of Go type t (with range facts).
func (ex *Exec) havocVal(prefix string, t types.Type) Val {
	if s, ok := ex.cx.sortOf(t); ok {
		v := ex.cx.fresh(prefix, s)
		ex.assumeWellTyped(v, t, tTrue)
		return Sc{v}
	}
	switch u := t.Underlying().(type) {
	case *types.Struct:
		a := Agg{}
		for i := 0; i < u.NumFields(); i++ {
			a.F = append(a.F, ex.havocVal(prefix+"."+u.Field(i).Name(), u.Field(i).Type()))
		}
		return a
	case *types.Tuple:
		a := Agg{}
		for i := 0; i < u.Len(); i++ {
			a.F = append(a.F, ex.havocVal(fmt.Sprintf("%s.%d", prefix, i), u.At(i).Type()))
		}
		return a
	}
	ex.cx.unsup("havoc of %s", t)
	return Sc{tNull}
}

// assumeWellTyped adds the typing facts of a fresh / loaded value.
func (ex *Exec) assumeWellTyped(v Term, t types.Type, guard Term) {
	switch v.Sort {
	case SInt:
		if isInteger(t) {
			ex.cx.assume(implies(guard, ex.cx.inRange(v, t)))
		}
	case SSlice:
		ex.cx.assume(implies(guard, ex.sliceWF(v)))
	}
}

func (ex *Exec) sliceWF(s Term) Term {
	is := ex.cx.intS()
	off, ln, cp := app(is, "soff", s), app(is, "slen", s), app(is, "scap", s)
	if ex.cx.mode == "bv" {
		max := bvLit(pow2(50), 64)
		return and(app(SBool, "bvule", ln, cp), app(SBool, "bvule", cp, max), app(SBool, "bvule", off, max))
	}
	return and(app(SBool, "<=", intLit(0), off), app(SBool, "<=", intLit(0), ln), app(SBool, "<=", ln, cp),
		app(SBool, "<=", cp, bigLit(pow2(50))), app(SBool, "<=", off, bigLit(pow2(50))))
}

var globalStores = map[*ssa.Package]map[*ssa.Global]bool{}

// globalAssigned: some function of the global's package (initialisers included) stores to it
// or takes its address for another purpose than loading.
func globalAssigned(g *ssa.Global) bool {
	pkg := g.Pkg
	m, ok := globalStores[pkg]
	if !ok {
		m = map[*ssa.Global]bool{}
		var visit func(f *ssa.Function)
		seen := map[*ssa.Function]bool{}
		visit = func(f *ssa.Function) {
			if f == nil || seen[f] {
				return
			}
			seen[f] = true
			for _, b := range f.Blocks {
				for _, ins := range b.Instrs {
					for _, op := range ins.Operands(nil) {
						gl, isG := (*op).(*ssa.Global)
						if !isG {
							continue
						}
						if ld, isLoad := ins.(*ssa.UnOp); isLoad && ld.X == ssa.Value(gl) {
							continue // a plain load
						}
						m[gl] = true // store, address taken, passed along
					}
				}
			}
			for _, a := range f.AnonFuncs {
				visit(a)
			}
		}
		for _, mem := range pkg.Members {
			switch x := mem.(type) {
			case *ssa.Function:
				visit(x)
			case *ssa.Type:
				for _, t := range []types.Type{x.Type(), types.NewPointer(x.Type())} {
					ms := pkg.Prog.MethodSets.MethodSet(t)
					for i := 0; i < ms.Len(); i++ {
						visit(pkg.Prog.MethodValue(ms.At(i)))
					}
				}
			}
		}
		globalStores[pkg] = m
	}
	return m[g]
}
