package main

import (
	"runtime"
	"os/exec"
	"context"
	"encoding/json"
	"fmt"
	"go/types"
	"os"
	"path/filepath"
	"sort"
	"strconv"
	"strings"
	"time"
)

type KnownFinding struct {
	Property   string `json:"property"`
	Obligation string `json:"obligation"`
	Witness    string `json:"witness"`
	Status     string `json:"status"` // known | fixed
	Commit     string `json:"commit,omitempty"`
	What       string `json:"what"`
}

type propInfo struct {
	Level     string   `json:"level"`
	Trusted   []string `json:"trusted_base"`
	Explain   string   `json:"explanation"`
	Assume    []string `json:"assumptions"`
}

func loadKnown() []KnownFinding {
	var ks []KnownFinding
	b, err := os.ReadFile(filepath.Join(verifDir(), "known_findings.json"))
	if err != nil {
		return nil
	}
	if err := json.Unmarshal(b, &ks); err != nil {
		fmt.Fprintln(os.Stderr, "known_findings.json:", err)
		os.Exit(2)
	}
	return ks
}

func loadBaseline() map[string][]string {
	m := map[string][]string{}
	b, err := os.ReadFile(filepath.Join(verifDir(), "baseline", "obligations.json"))
	if err != nil {
		return m
	}
	json.Unmarshal(b, &m)
	return m
}

func loadPropInfo() map[string]propInfo {
	m := map[string]propInfo{}
	b, err := os.ReadFile(filepath.Join(verifDir(), "props.json"))
	if err != nil {
		return m
	}
	if err := json.Unmarshal(b, &m); err != nil {
		fmt.Fprintln(os.Stderr, "props.json:", err)
		os.Exit(2)
	}
	return m
}

func hasProp(props []string, p string) bool {
	for _, x := range props {
		if x == p {
			return true
		}
	}
	return false
}

// oblForProp: does obligation o of a function listed under prop count for prop?
func oblForProp(o *Obligation, prop string) bool {
	if len(o.Props) == 0 {
		return true
	}
	return hasProp(o.Props, prop)
}

type oblReport struct {
	Name   string  `json:"name"`
	Kind   string  `json:"kind"`
	Status string  `json:"status"`
	Solver string  `json:"solver"`
	TimeS  float64 `json:"time_s"`
	Where  string  `json:"where"`
}

func checkCmd(args []string) {
	if len(args) < 1 {
		fmt.Fprintln(os.Stderr, "usage: kvc check <Cnn> [quick|thorough]")
		os.Exit(2)
	}
	prop := args[0]
	tier := "quick"
	if len(args) > 1 {
		tier = args[1]
	}
	if t := os.Getenv("VERIF_TIER"); t == "quick" || t == "thorough" {
		if len(args) < 2 {
			tier = t
		}
	}
	seed := 1
	if s := os.Getenv("VERIF_SEED"); s != "" {
		if n, err := strconv.Atoi(s); err == nil {
			seed = n
		}
	}
	start := time.Now()
	if _, ok := monitors[prop]; ok {
		monitorCheck(prop, tier, seed, start)
		return
	}
	timeout := 20 * time.Second
	cross := false
	if tier == "thorough" {
		timeout = 120 * time.Second
		cross = true
	}
	ld, err := loadRepo()
	if err != nil {
		fatalMachinery(prop, tier, seed, start, fmt.Sprintf("cannot load the repository: %v", err))
	}
	cs, warns, err := loadContracts(ld)
	for _, w := range warns {
		fmt.Println("warning:", w)
	}
	if err != nil {
		fatalMachinery(prop, tier, seed, start, fmt.Sprintf("cannot load contracts: %v", err))
	}
	var keys []string
	for k, fc := range cs.Funcs {
		if fc.IsIface || fc.Trusted || fc.Inline || !hasProp(fc.Props, prop) {
			continue
		}
		keys = append(keys, k)
	}
	sort.Strings(keys)
	work := filepath.Join(verifDir(), ".work", fmt.Sprintf("check-%s-%d", prop, os.Getpid()))
	os.MkdirAll(work, 0o755)
	defer os.RemoveAll(work)

	type job struct {
		res  *FuncResult
		obls []*Obligation
	}
	var jobs []job
	var allObls []*Obligation
	cxOf := map[*Obligation]*Ctx{}
	var funcs []string
	assumptions := map[string]bool{}
	var generatorFailures []string
	for _, k := range keys {
		fc := cs.Funcs[k]
		if fc.Missing {
			generatorFailures = append(generatorFailures, fmt.Sprintf("%s.%s: the function named by the contract does not exist in the current tree", shortPkg(fc.Pkg), fc.Key))
			continue
		}
		res := generate(ld, cs, fc)
		funcs = append(funcs, res.Name)
		for _, u := range res.Unsupported {
			generatorFailures = append(generatorFailures, res.Name+": "+u)
		}
		for _, n := range res.Notes {
			assumptions[n] = true
		}
		var obls []*Obligation
		for _, o := range res.Obls {
			if oblForProp(o, prop) {
				obls = append(obls, o)
				cxOf[o] = res.cx
			}
		}
		jobs = append(jobs, job{res, obls})
		allObls = append(allObls, obls...)
	}
	// lemmas
	for _, lm := range cs.Lemmas {
		if !hasProp(lm.Props, prop) {
			continue
		}
		cx, o := generateLemma(ld, cs, lm)
		funcs = append(funcs, "lemma "+lm.Name)
		for _, u := range cx.unsupported {
			generatorFailures = append(generatorFailures, "lemma "+lm.Name+": "+u)
		}
		if o != nil {
			cxOf[o] = cx
			allObls = append(allObls, o)
		}
	}
	solveMany(cxOf, allObls, solveOpts{timeout: timeout, seed: seed, par: 10, cross: cross, workDir: work})

	known := loadKnown()
	baseline := loadBaseline()
	info := loadPropInfo()[prop]

	nObl, nDis := 0, 0
	byBackend := map[string]int{}
	solverTime := 0.0
	var reports []oblReport
	var failures []*Obligation
	vacuity := map[string]int{}
	present := map[string]string{}
	for _, o := range allObls {
		solverTime += o.TimeS
		where := fmt.Sprintf("%s:%d", filepath.Base(o.Pos.Filename), o.Pos.Line)
		if o.ExpectSat {
			if o.Status == "unsat" {
				vacuity["contradictory"]++
				failures = append(failures, o)
			} else {
				vacuity["no-contradiction"]++
			}
			continue
		}
		nObl++
		present[o.Name] = o.Status
		reports = append(reports, oblReport{o.Name, o.Kind, o.Status, o.Solver, o.TimeS, where})
		if o.Status == "unsat" {
			nDis++
			byBackend[o.Solver]++
		} else {
			failures = append(failures, o)
		}
	}
	// baseline: labelled obligations that must exist and be discharged
	var missing []string
	for _, name := range baseline[prop] {
		if _, ok := present[name]; !ok {
			missing = append(missing, name)
		}
	}
	violations := 0
	os.MkdirAll(filepath.Join(verifDir(), "replay"), 0o755)
	report := func(name, what string, o *Obligation) {
		// known finding?
		for _, k := range known {
			if k.Status == "known" && k.Property == prop && k.Obligation == name {
				fmt.Printf("KNOWN-FINDING: property=%s %s %s\n", prop, name, k.What)
				return
			}
		}
		violations++
		path := filepath.Join(verifDir(), "replay", fmt.Sprintf("%s-%s.json", prop, mangle(name)))
		rf := map[string]any{"property": prop, "obligation": name, "what": what, "tier": tier, "seed": seed,
			"failing_input": nil, "note": "no concrete failing input was produced for this obligation; the verifier's output is attached"}
		if o != nil {
			rf["function"] = o.Func
			rf["kind"] = o.Kind
			rf["source"] = fmt.Sprintf("%s:%d", o.Pos.Filename, o.Pos.Line)
			rf["solver"] = o.Solver
			rf["solver_answer"] = o.Status
			rf["solver_time_s"] = o.TimeS
			rf["solver_output"] = o.Output
			if cx := cxOf[o]; cx != nil {
				sc := cx.script(o)
				if len(sc) > 400000 {
					sc = sc[:400000] + "\n; ... truncated"
				}
				rf["smt_script"] = sc
			}
			rf["rerun"] = fmt.Sprintf("cd /verif && ./check %s %s", prop, tier)
		}
		b, _ := json.MarshalIndent(rf, "", " ")
		os.WriteFile(path, b, 0o644)
		fmt.Printf("VIOLATION property=%s replay=%s obligation=%s (%s) no-failing-input-found\n", prop, path, name, what)
	}
	// C10: format constants pinned from the reference snapshot
	if prop == "C10" {
		n, bad, err := checkConstants(ld)
		if err != nil {
			generatorFailures = append(generatorFailures, "format constants: "+err.Error())
		}
		nObl += n
		nDis += n - len(bad)
		byBackend["go/types constant evaluation"] += n - len(bad)
		for _, m := range bad {
			name := "const:" + m.Name
			violations++
			path := filepath.Join(verifDir(), "replay", fmt.Sprintf("%s-%s.json", prop, mangle(name)))
			rf := map[string]any{"property": prop, "obligation": name, "what": "format constant differs from the value pinned from the reference snapshot",
				"pinned": m.Want, "found": m.Got, "failing_input": "any stream written by the reference encoder that exercises this constant", "rerun": "cd /verif && ./check C10 quick"}
			b, _ := json.MarshalIndent(rf, "", " ")
			os.WriteFile(path, b, 0o644)
			fmt.Printf("VIOLATION property=%s replay=%s obligation=%s (pinned %.60s, found %.60s) no-failing-input-found\n", prop, path, name, m.Want, m.Got)
		}
		funcs = append(funcs, fmt.Sprintf("%d pinned format constants/tables (contracts/format_constants.json)", n))
	}
	// pure lemmas of the property (contracts/lemmas/<prop>-*.smt2): hand-written SMT
	// scripts that close an abstract step between a proved postcondition and the
	// property statement; each must be unsat (cvc5 with induction)
	if lemmas, _ := filepath.Glob(filepath.Join(verifDir(), "contracts", "lemmas", prop+"-*.smt2")); len(lemmas) > 0 {
		sort.Strings(lemmas)
		for _, lf := range lemmas {
			name := "lemma:" + strings.TrimSuffix(filepath.Base(lf), ".smt2")
			t0 := time.Now()
			ctxT, cancel := context.WithTimeout(context.Background(), 120*time.Second)
			out, _ := exec.CommandContext(ctxT, "cvc5", "--quant-ind", lf).CombinedOutput()
			cancel()
			ans := strings.TrimSpace(strings.SplitN(strings.TrimSpace(string(out))+"\n", "\n", 2)[0])
			nObl++
			present[name] = ans
			solverTime += time.Since(t0).Seconds()
			reports = append(reports, oblReport{name, "lemma", ans, "cvc5 --quant-ind", time.Since(t0).Seconds(), filepath.Base(lf)})
			if ans == "unsat" {
				nDis++
				byBackend["cvc5 --quant-ind (lemma scripts)"]++
				continue
			}
			violations++
			path := filepath.Join(verifDir(), "replay", fmt.Sprintf("%s-%s.json", prop, mangle(name)))
			rf := map[string]any{"property": prop, "obligation": name, "what": "lemma script not proved: answer " + ans, "script": lf, "solver_output": string(out), "failing_input": nil,
				"rerun": "cvc5 --quant-ind " + lf}
			b, _ := json.MarshalIndent(rf, "", " ")
			os.WriteFile(path, b, 0o644)
			fmt.Printf("VIOLATION property=%s replay=%s obligation=%s (lemma script not proved: %s) no-failing-input-found\n", prop, path, name, ans)
		}
		funcs = append(funcs, fmt.Sprintf("%d lemma scripts (contracts/lemmas/%s-*.smt2)", len(lemmas), prop))
	}
	// bounded supplement (reported separately, never counted as proved)
	var boundedCov map[string]any
	if spec, ok := supplements[prop]; ok {
		res := runMonitor(prop, tier, "")
		if res.Err != nil {
			generatorFailures = append(generatorFailures, "bounded supplement: "+res.Err.Error())
		} else if res.Evals == 0 && (prop == "C12" || prop == "C13") {
			generatorFailures = append(generatorFailures, "bounded supplement: the monitor evaluated no case")
		}
		for _, f := range res.Fails {
			name := "monitor:" + f.Case
			violations++
			path := filepath.Join(verifDir(), "replay", fmt.Sprintf("%s-%s.json", prop, mangle(f.Case)))
			rf := map[string]any{"property": prop, "obligation": name, "kind": "bounded-monitor", "case": f.Case, "what": f.What, "tier": tier,
				"failing_input": "the case string is the input (configuration, data shape, size and seed); `./check replay <this file>` rebuilds it and runs the real code on it",
				"contract": spec.Title, "rerun": "cd /verif && ./check replay " + path}
			b, _ := json.MarshalIndent(rf, "", " ")
			os.WriteFile(path, b, 0o644)
			fmt.Printf("VIOLATION property=%s replay=%s obligation=%s (%s)\n", prop, path, name, f.What)
		}
		var smp []any
		for _, x := range res.Samples {
			smp = append(smp, x)
		}
		boundedCov = map[string]any{"evaluations": res.Evals, "distinct_nontrivial": res.Nontrivial, "rule": res.Rule, "samples": smp, "failing_cases": len(res.Fails),
			"contract_monitored": spec.Title, "note": "bounded run-time supplement on the real code; not part of obligations/discharged"}
		funcs = append(funcs, "bounded supplement: monitor/"+spec.File+" in package "+spec.Pkg)
	}
	// C03: panic containment of the goroutines spawned on the decoding side
	if prop == "C03" {
		for _, c := range goContainedObligations(ld) {
			if encoderSide(c.Name) {
				continue
			}
			nObl++
			present[c.Name] = "unsat"
			funcs = append(funcs, "go statement: "+c.Name)
			if c.OK {
				nDis++
				byBackend["go/ssa structural rule (recover-first)"]++
				reports = append(reports, oblReport{c.Name, "go-contained", "unsat", "ssa-structural", 0, fmt.Sprintf("%s:%d", filepath.Base(c.Pos.Filename), c.Pos.Line)})
				continue
			}
			handled := false
			for _, k := range known {
				if k.Status == "known" && k.Property == prop && k.Obligation == c.Name {
					fmt.Printf("KNOWN-FINDING: property=%s %s %s\n", prop, c.Name, k.What)
					handled = true
				}
			}
			if handled {
				continue
			}
			violations++
			path := filepath.Join(verifDir(), "replay", fmt.Sprintf("%s-%s.json", prop, mangle(c.Name)))
			rf := map[string]any{"property": prop, "obligation": c.Name, "what": "a panic can leave a function run by a go statement: " + c.Detail,
				"source": fmt.Sprintf("%s:%d", c.Pos.Filename, c.Pos.Line), "failing_input": nil,
				"note": "decided on the SSA form (no solver): the spawned function neither defers a recovering function first nor only calls functions that do", "rerun": "cd /verif && ./check C03 quick"}
			b, _ := json.MarshalIndent(rf, "", " ")
			os.WriteFile(path, b, 0o644)
			fmt.Printf("VIOLATION property=%s replay=%s obligation=%s (%s) no-failing-input-found\n", prop, path, c.Name, c.Detail)
		}
		assumptions["go-contained: channel operations, sync.WaitGroup calls and nil dereferences inside spawned functions are not considered panic sources; the recovering handler itself is assumed not to panic"] = true
	}
	for _, g := range generatorFailures {
		report("generator:"+g, "the verification conditions of this function could not be generated: "+g, nil)
	}
	for _, o := range failures {
		what := "obligation not discharged: solver answer " + o.Status
		if o.ExpectSat {
			what = "vacuity: the assumptions on this path are contradictory"
		}
		report(o.Name, what, o)
	}
	for _, m := range missing {
		report(m, "obligation of the baseline is no longer generated (function or contract clause vanished)", nil)
	}
	if len(allObls) == 0 {
		report("no-obligations", "no obligation was generated for this property", nil)
	}

	// evidence
	sort.Slice(reports, func(i, j int) bool { return reports[i].TimeS > reports[j].TimeS })
	var samples []any
	for i, r := range reports {
		if i >= 12 {
			break
		}
		samples = append(samples, r)
	}
	asm := []string{}
	for a := range assumptions {
		asm = append(asm, a)
	}
	asm = append(asm, info.Assume...)
	sort.Strings(asm)
	level := info.Level
	if level == "" {
		level = "proof"
	}
	hashes := map[string]string{}
	for f, h := range ld.fileHashes {
		if strings.Contains(f, "/v2/") && !strings.HasSuffix(f, "_test.go") {
			hashes[strings.TrimPrefix(f, ld.repo+"/")] = h[:16]
		}
	}
	cov := map[string]any{
		"obligations":              nObl,
		"discharged":               nDis,
		"checker_cmd":              fmt.Sprintf("cd /verif && ./check %s %s   (kvc: WP over go/ssa of /repo, discharged by z3 5.1.0 / cvc5 1.0.3 / z3 4.8.12)", prop, tier),
		"trusted_base":             info.Trusted,
		"explanation":              info.Explain,
		"functions_under_contract": funcs,
		"by_backend":               byBackend,
		"solver_time_s":            solverTime,
		"vacuity":                  vacuity,
		"samples":                  samples,
		"baseline_obligations":     len(baseline[prop]),
		"source_sha256_prefix":     hashes,
		"contract_files":           cs.Files,
		"evaluations":              nObl,
		"distinct_nontrivial":      nObl,
		"rule":                     "one evaluation = one named verification condition generated from the current SSA of a function under contract and decided by an SMT solver for all inputs; all are distinct (different goal formulas)",
	}
	if boundedCov != nil {
		cov["bounded"] = boundedCov
	}
	ev := map[string]any{
		"property_id": prop, "tier": tier, "seed": seed, "level": level, "coverage": cov,
		"assumptions": asm, "wall_s": time.Since(start).Seconds(), "violations": violations,
	}
	os.MkdirAll(filepath.Join(verifDir(), "evidence"), 0o755)
	b, _ := json.MarshalIndent(ev, "", " ")
	os.WriteFile(filepath.Join(verifDir(), "evidence", prop+".json"), b, 0o644)
	fmt.Printf("%s %s: %d functions, %d obligations, %d discharged, %d violations, %.1fs\n", prop, tier, len(funcs), nObl, nDis, violations, time.Since(start).Seconds())
	if violations > 0 {
		os.Exit(1)
	}
}

func fatalMachinery(prop, tier string, seed int, start time.Time, msg string) {
	fmt.Fprintln(os.Stderr, "kvc: machinery fault:", msg)
	path := filepath.Join(verifDir(), "replay", fmt.Sprintf("%s-machinery.json", prop))
	os.MkdirAll(filepath.Dir(path), 0o755)
	b, _ := json.MarshalIndent(map[string]any{"property": prop, "obligation": "machinery", "what": msg}, "", " ")
	os.WriteFile(path, b, 0o644)
	fmt.Printf("VIOLATION property=%s replay=%s obligation=machinery (%s) no-failing-input-found\n", prop, path, msg)
	os.Exit(1)
}

// solveMany: one pool for the obligations of many functions.
// Stage 1: every obligation as a whole, short timeout. Stage 2: the undecided
// ones (at most 16; more than that is not a load problem) leaf by leaf with the
// full timeout, a few at a time, so that a proof that is merely slow under
// load does not become an alarm.
func solveMany(cxOf map[*Obligation]*Ctx, obls []*Obligation, opt solveOpts) {
	t1 := opt.timeout / 2
	if t1 > 10*time.Second {
		t1 = 10 * time.Second
	}
	if opt.cross {
		t1 = opt.timeout / 3
	}
	run := func(list []*Obligation, par int, o2 solveOpts) {
		sem := make(chan struct{}, par)
		done := make(chan struct{})
		for _, o := range list {
			go func(o *Obligation) {
				sem <- struct{}{}
				solveAll(cxOf[o], []*Obligation{o}, o2)
				<-sem
				done <- struct{}{}
			}(o)
		}
		for range list {
			<-done
		}
	}
	// a loaded machine makes every solver slow: scale the timeouts with the load
	// (1-minute load average per core), never below the nominal values
	lf := loadFactor()
	scale := func(d time.Duration) time.Duration { return time.Duration(float64(d) * lf) }
	t1 = scale(t1)
	opt.timeout = scale(opt.timeout)
	run(obls, opt.par, solveOpts{timeout: t1, seed: opt.seed, par: 1, cross: opt.cross, workDir: opt.workDir})
	undecided := func() []*Obligation {
		var l []*Obligation
		for _, o := range obls {
			if !o.ExpectSat && (o.Status == "timeout" || o.Status == "unknown") {
				l = append(l, o)
			}
		}
		return l
	}
	again := undecided()
	if len(again) > 16 {
		// many undecided obligations at once is the signature of an overloaded machine,
		// not of a code change (those leave a handful): one more pass, fewer at a time, 3x the time
		allTimeouts := true
		for _, o := range again {
			if o.Status != "timeout" {
				allTimeouts = false
			}
		}
		if allTimeouts && loadFactor() > 1.5 {
			lf2 := loadFactor()
			run(again, max(2, opt.par/4), solveOpts{timeout: time.Duration(float64(3*t1) * lf2 / lf), seed: opt.seed + 3, par: 1, cross: false, workDir: opt.workDir})
			again = undecided()
		}
	}
	if len(again) > 16 {
		again = again[:16]
	}
	if len(again) > 0 {
		run(again, 4, solveOpts{timeout: opt.timeout, seed: opt.seed + 1, par: 1, cross: false, workDir: opt.workDir, split: true})
	}
	// Stage 3: a last, unhurried attempt for the few that remain (one at a time,
	// other seed, three times the timeout): slow-but-true proofs must not alarm.
	var last []*Obligation
	for _, o := range again {
		if o.Status == "timeout" || o.Status == "unknown" {
			last = append(last, o)
		}
	}
	if len(last) > 0 && len(last) <= 4 {
		run(last, 1, solveOpts{timeout: 3 * opt.timeout, seed: opt.seed + 7, par: 1, cross: false, workDir: opt.workDir, split: true})
	}
	// Stage 4: one or two obligations that only ever timed out (never sat, never unknown with a
	// reason) get a last attempt with yet another seed and six times the timeout: the solvers'
	// run time on a true proof varies by an order of magnitude from run to run.
	var rescue []*Obligation
	for _, o := range last {
		if o.Status == "timeout" {
			rescue = append(rescue, o)
		}
	}
	if len(rescue) > 0 && len(rescue) <= 2 {
		run(rescue, 1, solveOpts{timeout: 6 * opt.timeout, seed: opt.seed + 13, par: 1, cross: false, workDir: opt.workDir, split: true})
	}
}

// generateLemma: a pure lemma over spec functions (no code).
func generateLemma(ld *Loaded, cs *Contracts, lm *Lemma) (*Ctx, *Obligation) {
	cx := newCtx(lm.Mode, "lemma."+lm.Name)
	ex := &Exec{cx: cx, ld: ld, cs: cs, fieldOwner: ld.fieldOwner, paramEntry: map[string]SVal{}, nilChecked: map[string]bool{},
		callOrd: map[string]int{}, kindOrd: map[string]int{}, heapElemType: nil}
	ex.heapElemType = map[string]types.Type{}
	st := &State{reach: tTrue, locals: nil, heaps: map[string]Term{}, vars: map[string]Term{}}
	env := ex.specEnv(nil, st, st)
	if sp := ld.spkgs[lm.Pkg]; sp != nil {
		env.pkg = sp.Pkg
	}
	for i, v := range lm.Vars {
		t, ok := castTypes[lm.VTypes[i]]
		if !ok {
			cx.unsup("lemma variable type %s", lm.VTypes[i])
			return cx, nil
		}
		s, _ := cx.sortOf(t)
		tm := cx.fresh("lv_"+v, s)
		cx.assume(cx.inRange(tm, t))
		env.vars[v] = SVal{V: Sc{tm}, T: t}
	}
	for _, h := range lm.Hyps {
		cx.assume(env.evalBool(h.Expr))
	}
	if lm.Goal == nil {
		cx.unsup("lemma without ensures")
		return cx, nil
	}
	g := env.evalBool(lm.Goal.Expr)
	o := cx.oblige("lemma", lm.Name, tTrue, g, ex.pos(0), lm.Props)
	o.Name = "lemma." + lm.Name
	return cx, o
}

// encoderSide: go statements that only run while compressing are not part of C03.
func encoderSide(name string) bool {
	for _, k := range []string{"Writer.", "Compressor", "fileCompress", "Forward", "forward", "Encod", "encod"} {
		if strings.Contains(name, k) {
			return true
		}
	}
	return false
}

// loadFactor: 1-minute load average divided by the number of cores, clamped to [1,6].
func loadFactor() float64 {
	b, err := os.ReadFile("/proc/loadavg")
	if err != nil {
		return 1
	}
	f := strings.Fields(string(b))
	if len(f) == 0 {
		return 1
	}
	l, err := strconv.ParseFloat(f[0], 64)
	if err != nil {
		return 1
	}
	x := l / float64(runtime.NumCPU())
	if x < 1 {
		return 1
	}
	if x > 6 {
		return 6
	}
	return x
}
