package main

// Terms are SMT-LIB2 s-expressions kept as strings together with their sort.
// The generator names large sub-terms with fresh constants (Ctx.name) so that
// script size stays linear in the size of the analysed function.

import (
	"fmt"
	"math/big"
	"strings"
)

type Term struct {
	S    string
	Sort string
}

const (
	SInt   = "Int"
	SBool  = "Bool"
	SRef   = "Ref"
	SSlice = "Slice"
	SIface = "Iface"
	SFloat = "Float"
	SStr   = "String"
)

func bvSort(w int) string { return fmt.Sprintf("(_ BitVec %d)", w) }

func isBV(s string) (int, bool) {
	var w int
	if n, _ := fmt.Sscanf(s, "(_ BitVec %d)", &w); n == 1 {
		return w, true
	}
	return 0, false
}

func arrSort(idx, elem string) string { return "(Array " + idx + " " + elem + ")" }

var (
	tTrue  = Term{"true", SBool}
	tFalse = Term{"false", SBool}
	tNull  = Term{"null", SRef}
)

func app(sort, op string, args ...Term) Term {
	var b strings.Builder
	b.WriteByte('(')
	b.WriteString(op)
	for _, a := range args {
		b.WriteByte(' ')
		b.WriteString(a.S)
	}
	b.WriteByte(')')
	return Term{b.String(), sort}
}

func intLit(n int64) Term {
	if n < 0 {
		return Term{fmt.Sprintf("(- %d)", -n), SInt}
	}
	return Term{fmt.Sprintf("%d", n), SInt}
}

func bigLit(n *big.Int) Term {
	if n.Sign() < 0 {
		return Term{"(- " + new(big.Int).Neg(n).String() + ")", SInt}
	}
	return Term{n.String(), SInt}
}

func bvLit(n *big.Int, w int) Term {
	m := new(big.Int).Lsh(big.NewInt(1), uint(w))
	v := new(big.Int).Mod(n, m)
	return Term{fmt.Sprintf("(_ bv%s %d)", v.String(), w), bvSort(w)}
}

func pow2(k int) *big.Int { return new(big.Int).Lsh(big.NewInt(1), uint(k)) }

func and(ts ...Term) Term {
	var keep []Term
	for _, t := range ts {
		if t.S == "true" {
			continue
		}
		if t.S == "false" {
			return tFalse
		}
		keep = append(keep, t)
	}
	switch len(keep) {
	case 0:
		return tTrue
	case 1:
		return keep[0]
	}
	return app(SBool, "and", keep...)
}

func or(ts ...Term) Term {
	var keep []Term
	for _, t := range ts {
		if t.S == "false" {
			continue
		}
		if t.S == "true" {
			return tTrue
		}
		keep = append(keep, t)
	}
	switch len(keep) {
	case 0:
		return tFalse
	case 1:
		return keep[0]
	}
	return app(SBool, "or", keep...)
}

func not(t Term) Term {
	switch t.S {
	case "true":
		return tFalse
	case "false":
		return tTrue
	}
	if strings.HasPrefix(t.S, "(not ") {
		return Term{t.S[5 : len(t.S)-1], SBool}
	}
	return app(SBool, "not", t)
}

func implies(a, b Term) Term {
	if a.S == "true" {
		return b
	}
	if a.S == "false" || b.S == "true" {
		return tTrue
	}
	return app(SBool, "=>", a, b)
}

func eq(a, b Term) Term {
	if a.S == b.S {
		return tTrue
	}
	return app(SBool, "=", a, b)
}

func ite(c, a, b Term) Term {
	if c.S == "true" {
		return a
	}
	if c.S == "false" {
		return b
	}
	if a.S == b.S {
		return a
	}
	return app(a.Sort, "ite", c, a, b)
}

func sel(arr, idx Term) Term {
	// (Array I E)
	es := elemSortOf(arr.Sort)
	// read-over-write on syntactically identical index
	if ea := expandDef(arr.S); strings.HasPrefix(ea, "(store ") {
		if h, i, v, ok := splitStore(ea); ok {
			if i == idx.S {
				return Term{v, es}
			}
			if distinctAddr(i, idx.S) {
				return sel(Term{h, arr.Sort}, idx)
			}
		}
	}
	return app(es, "select", arr, idx)
}

func store(arr, idx, v Term) Term {
	// store(store(H, i, x), i, v) = store(H, i, v)
	if h, i, _, ok := splitStore(expandDef(arr.S)); ok && i == idx.S {
		return app(arr.Sort, "store", Term{h, arr.Sort}, idx, v)
	}
	return app(arr.Sort, "store", arr, idx, v)
}

// elemSortOf returns E for "(Array I E)".
func elemSortOf(s string) string {
	parts := splitSexp(s)
	if len(parts) == 3 && parts[0] == "Array" {
		return parts[2]
	}
	panic("not an array sort: " + s)
}

func idxSortOf(s string) string {
	parts := splitSexp(s)
	if len(parts) == 3 && parts[0] == "Array" {
		return parts[1]
	}
	panic("not an array sort: " + s)
}

// splitSexp splits the top-level elements of a parenthesised s-expression.
func splitSexp(s string) []string {
	if len(s) < 2 || s[0] != '(' || s[len(s)-1] != ')' {
		return []string{s}
	}
	s = s[1 : len(s)-1]
	var out []string
	depth := 0
	start := -1
	inStr := false
	for i := 0; i < len(s); i++ {
		c := s[i]
		if inStr {
			if c == '"' {
				inStr = false
			}
			continue
		}
		switch c {
		case '"':
			inStr = true
			if start < 0 {
				start = i
			}
		case '(':
			if depth == 0 && start < 0 {
				start = i
			}
			depth++
		case ')':
			depth--
		case ' ', '\n', '\t':
			if depth == 0 && start >= 0 {
				out = append(out, s[start:i])
				start = -1
			}
		default:
			if start < 0 {
				start = i
			}
		}
	}
	if start >= 0 {
		out = append(out, s[start:])
	}
	return out
}

func splitStore(s string) (h, i, v string, ok bool) {
	p := splitSexp(s)
	if len(p) == 4 && p[0] == "store" {
		return p[1], p[2], p[3], true
	}
	return "", "", "", false
}

// distinctAddr reports whether two Ref terms are certainly different by
// their constructors (syntactic check only).
func distinctAddr(a, b string) bool {
	pa, pb := splitSexp(a), splitSexp(b)
	ha, hb := pa[0], pb[0]
	isCons := func(h string) bool { return h == "obj" || h == "fld" || h == "elem" || h == "box" || h == "null" }
	if !isCons(ha) || !isCons(hb) {
		return false
	}
	if ha != hb {
		return true
	}
	switch ha {
	case "obj":
		return isNum(pa[1]) && isNum(pb[1]) && pa[1] != pb[1]
	case "fld":
		if isNum(pa[2]) && isNum(pb[2]) && pa[2] != pb[2] {
			return true
		}
		return distinctAddr(pa[1], pb[1])
	case "elem":
		if isNum(pa[2]) && isNum(pb[2]) && pa[2] != pb[2] {
			return true
		}
		return distinctAddr(pa[1], pb[1])
	}
	return false
}

func isNum(s string) bool {
	if s == "" {
		return false
	}
	for _, c := range s {
		if c < '0' || c > '9' {
			return false
		}
	}
	return true
}

func mangle(s string) string {
	r := strings.NewReplacer("(", "", ")", "", " ", "_", "*", "p", "/", ".", "[", "", "]", "", ",", "_", "{", "", "}", "", ";", "_", "\"", "", "\t", "", "\n", "", "#", "$", "'", "", "<", "lt", ">", "gt", "=", "eq", "|", "", "\\", "", ":", "_")
	return r.Replace(s)
}
