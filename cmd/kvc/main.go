package main

import (
	"encoding/json"
	"flag"
	"fmt"
	"os"
	"path/filepath"
	"sort"
	"strings"
	"time"
)

func main() {
	if len(os.Args) < 2 {
		fmt.Fprintln(os.Stderr, "usage: kvc fn|check|dump ...")
		os.Exit(2)
	}
	switch os.Args[1] {
	case "dump":
		dumpCmd(os.Args[2:])
	case "fn":
		fnCmd(os.Args[2:])
	case "check":
		checkCmd(os.Args[2:])
	case "sync":
		syncCmd()
	case "baseline":
		baselineCmd()
	case "pinconsts":
		pinConstsCmd()
	case "replay":
		replayCmd(os.Args[2:])
	default:
		fmt.Fprintln(os.Stderr, "unknown command", os.Args[1])
		os.Exit(2)
	}
}

func fnCmd(args []string) {
	fs := flag.NewFlagSet("fn", flag.ExitOnError)
	timeout := fs.Duration("timeout", 20*time.Second, "per-obligation timeout")
	verbose := fs.Bool("v", false, "verbose")
	only := fs.String("only", "", "substring filter on obligation names")
	keep := fs.Bool("keep", false, "keep scripts")
	explain := fs.Bool("explain", false, "for failing obligations, test each conjunct of the goal")
	fs.BoolVar(&debugPanics, "debug", false, "re-panic on generator panics")
	fs.Parse(args)
	pat := fs.Args()
	ld, err := loadRepo()
	if err != nil {
		fmt.Fprintln(os.Stderr, err)
		os.Exit(2)
	}
	cs, warns, err := loadContracts(ld)
	for _, w := range warns {
		fmt.Fprintln(os.Stderr, "warning:", w)
	}
	if err != nil {
		fmt.Fprintln(os.Stderr, err)
		os.Exit(2)
	}
	var keys []string
	for k, fc := range cs.Funcs {
		if fc.IsIface || fc.Trusted || fc.Missing {
			continue
		}
		match := len(pat) == 0
		for _, p := range pat {
			if strings.Contains(fnDisplayName(fc.Pkg, fc.Key), p) {
				match = true
			}
		}
		if match {
			keys = append(keys, k)
		}
	}
	sort.Strings(keys)
	work := filepath.Join(verifDir(), ".work", fmt.Sprintf("fn-%d", os.Getpid()))
	bad := 0
	for _, k := range keys {
		fc := cs.Funcs[k]
		t0 := time.Now()
		res := generate(ld, cs, fc)
		gen := time.Since(t0)
		var obls []*Obligation
		for _, o := range res.Obls {
			if *only == "" || strings.Contains(o.Name, *only) {
				obls = append(obls, o)
			}
		}
		t1 := time.Now()
		cxOf := map[*Obligation]*Ctx{}
		for _, o := range obls {
			cxOf[o] = res.cx
		}
		solveMany(cxOf, obls, solveOpts{timeout: *timeout, seed: 1, par: 8, workDir: work, keep: *keep})
		fmt.Printf("== %s  mode=%s  obligations=%d  gen=%.2fs solve=%.2fs\n", res.Name, res.Mode, len(obls), gen.Seconds(), time.Since(t1).Seconds())
		for _, u := range res.Unsupported {
			fmt.Printf("   UNSUPPORTED: %s\n", u)
			bad++
		}
		{
			sl := append([]*Obligation{}, obls...)
			sort.Slice(sl, func(i, j int) bool { return sl[i].TimeS > sl[j].TimeS })
			for i := 0; i < len(sl) && i < 4; i++ {
				if sl[i].TimeS > 3 {
					fmt.Printf("   slow %.1fs %s (%s %s)\n", sl[i].TimeS, sl[i].Name, sl[i].Status, sl[i].Solver)
				}
			}
		}
		for _, o := range obls {
			okay := (o.Status == "unsat" && !o.ExpectSat) || (o.ExpectSat && o.Status != "unsat" && o.Status != "error")
			if !okay {
				bad++
			}
			if !okay || *verbose {
				mark := "ok  "
				if !okay {
					mark = "FAIL"
				}
				fmt.Printf("   %s %-70s %-8s %-7s %.2fs  %s:%d\n", mark, o.Name, o.Status, o.Solver, o.TimeS, filepath.Base(o.Pos.Filename), o.Pos.Line)
				if !okay && *explain && !o.ExpectSat {
					explainObl(res.cx, o, work)
				}
				if !okay && o.Status == "error" {
					lines := strings.Split(strings.TrimSpace(o.Output), "\n")
					if len(lines) > 3 {
						lines = lines[:3]
					}
					fmt.Printf("        %s\n", strings.Join(lines, "\n        "))
				}
			}
		}
		if *verbose {
			sort.Strings(res.Notes)
			for _, n := range res.Notes {
				fmt.Printf("   note: %s\n", n)
			}
		}
	}
	if !*keep && bad == 0 {
		os.RemoveAll(work)
	}
	if bad > 0 {
		fmt.Printf("%d problems (scripts kept in %s)\n", bad, work)
		os.Exit(1)
	}
}

// flattenAnd splits nested conjunctions.
func flattenAnd(t string) []string {
	p := splitSexp(t)
	if len(p) > 1 && p[0] == "and" {
		var out []string
		for _, c := range p[1:] {
			out = append(out, flattenAnd(c)...)
		}
		return out
	}
	return []string{t}
}

type leafGoal struct {
	hyps []string
	goal string
}

// leaves decomposes a goal into (hypotheses => atomic goal) leaves through
// conjunctions and implications.
func leaves(hyps []string, g string, out *[]leafGoal) {
	p := splitSexp(g)
	if len(p) == 3 && p[0] == "=>" {
		leaves(append(append([]string{}, hyps...), p[1]), p[2], out)
		return
	}
	if len(p) > 1 && p[0] == "and" {
		for _, c := range p[1:] {
			leaves(hyps, c, out)
		}
		return
	}
	*out = append(*out, leafGoal{hyps, g})
}

func explainObl(cx *Ctx, o *Obligation, work string) {
	var ls []leafGoal
	leaves(nil, o.Goal.S, &ls)
	for i, l := range ls {
		g := l.goal
		for j := len(l.hyps) - 1; j >= 0; j-- {
			g = "(=> " + l.hyps[j] + " " + g + ")"
		}
		o2 := *o
		o2.Goal = Term{g, SBool}
		script := cx.script(&o2)
		file := filepath.Join(work, fmt.Sprintf("explain-%d.smt2", i))
		os.WriteFile(file, []byte(script), 0o644)
		r, _ := solve(file, 8*time.Second, 1, false)
		if r.status != "unsat" {
			txt := l.goal
			if len(txt) > 400 {
				txt = txt[:400] + "..."
			}
			fmt.Printf("        leaf %d (under %d hyps): %s: %s\n", i, len(l.hyps), r.status, txt)
		}
	}
}

// syncCmd copies the contract mirrors into the repository as comment-only,
// build-tag guarded Go files.
func syncCmd() {
	dir := filepath.Join(verifDir(), "contracts")
	ents, _ := os.ReadDir(dir)
	for _, e := range ents {
		if !strings.HasSuffix(e.Name(), ".contracts") {
			continue
		}
		name := strings.TrimSuffix(e.Name(), ".contracts")
		rel := strings.ReplaceAll(name, "_", "/")
		if name == "kanzi" {
			rel = ""
		}
		b, err := os.ReadFile(filepath.Join(dir, e.Name()))
		if err != nil {
			continue
		}
		dst := filepath.Join(repoDir(), "v2", rel, "contracts_verif.go")
		if err := os.WriteFile(dst, b, 0o644); err != nil {
			fmt.Fprintln(os.Stderr, err)
			os.Exit(1)
		}
		fmt.Println("wrote", dst)
	}
}

// baselineCmd records, per claimed property, the names of the labelled
// obligations generated on the current tree (no solving).
func baselineCmd() {
	ld, err := loadRepo()
	if err != nil {
		fmt.Fprintln(os.Stderr, err)
		os.Exit(2)
	}
	cs, _, err := loadContracts(ld)
	if err != nil {
		fmt.Fprintln(os.Stderr, err)
		os.Exit(2)
	}
	props := loadPropInfo()
	out := map[string][]string{}
	gen := map[string]*FuncResult{}
	for prop := range props {
		var names []string
		for k, fc := range cs.Funcs {
			if fc.IsIface || fc.Trusted || fc.Inline || fc.Missing || !hasProp(fc.Props, prop) {
				continue
			}
			res, ok := gen[k]
			if !ok {
				res = generate(ld, cs, fc)
				gen[k] = res
			}
			for _, o := range res.Obls {
				if !oblForProp(o, prop) || o.ExpectSat {
					continue
				}
				switch o.Kind {
				case "post", "panics", "atreturn", "atcall", "atalloc":
					names = append(names, o.Name)
				}
			}
		}
		for _, lm := range cs.Lemmas {
			if hasProp(lm.Props, prop) {
				names = append(names, "lemma."+lm.Name)
			}
		}
		sort.Strings(names)
		out[prop] = names
	}
	b, _ := json.MarshalIndent(out, "", " ")
	os.MkdirAll(filepath.Join(verifDir(), "baseline"), 0o755)
	os.WriteFile(filepath.Join(verifDir(), "baseline", "obligations.json"), b, 0o644)
	// named locals of the functions under contract (see renamedLocal)
	locals := map[string][]localSig{}
	for _, fc := range cs.Funcs {
		if fc.IsIface || fc.Missing {
			continue
		}
		if fn := ld.findFunc(fc.Pkg, fc.Key); fn != nil {
			locals[fn.String()] = localSigs(fn)
		}
	}
	// field heaps of the module's structs (see newFieldHeap)
	var fields []string
	for f, owner := range ld.fieldOwner {
		fields = append(fields, "F!"+owner+"."+f.Name())
	}
	sort.Strings(fields)
	fb, _ := json.MarshalIndent(fields, "", " ")
	os.WriteFile(filepath.Join(verifDir(), "baseline", "fields.json"), fb, 0o644)
	loops := map[string][]string{}
	for _, fc := range cs.Funcs {
		if fc.IsIface || fc.Missing {
			continue
		}
		if fn := ld.findFunc(fc.Pkg, fc.Key); fn != nil {
			loops[fn.String()] = loopSigs(fn, analyzeLoops(fn))
		}
	}
	lpb, _ := json.MarshalIndent(loops, "", " ")
	os.WriteFile(filepath.Join(verifDir(), "baseline", "loops.json"), lpb, 0o644)
	lb, _ := json.MarshalIndent(locals, "", " ")
	os.WriteFile(filepath.Join(verifDir(), "baseline", "locals.json"), lb, 0o644)
	for _, p := range sortedKeys(out) {
		fmt.Printf("%s: %d baseline obligations\n", p, len(out[p]))
	}
}
