package main

import (
	"syscall"
	"runtime"
	"bytes"
	"context"
	"fmt"
	"os"
	"os/exec"
	"path/filepath"
	"strings"
	"sync"
	"time"
)

type solverSpec struct {
	name string
	cmd  func(file string, timeout time.Duration, seed int) []string
}

var solvers = []solverSpec{
	{"z3-new", func(f string, t time.Duration, seed int) []string {
		return []string{"z3-new", fmt.Sprintf("-T:%d", int(t.Seconds())+1), fmt.Sprintf("smt.random_seed=%d", seed), fmt.Sprintf("sat.random_seed=%d", seed), f}
	}},
	{"cvc5", func(f string, t time.Duration, seed int) []string {
		return []string{"cvc5", "--strings-exp", fmt.Sprintf("--tlimit=%d", t.Milliseconds()), fmt.Sprintf("--seed=%d", seed), f}
	}},
	{"z3", func(f string, t time.Duration, seed int) []string {
		return []string{"z3", fmt.Sprintf("-T:%d", int(t.Seconds())+1), fmt.Sprintf("smt.random_seed=%d", seed), f}
	}},
}

type solveResult struct {
	status string // unsat sat unknown timeout error
	solver string
	out    string
	dur    time.Duration
}

// solverSlot: a machine-wide limit on the number of solver processes (one per
// core), shared by every kvc process through lock files, so that several checks
// running at the same time do not turn each other's proofs into timeouts. The
// time spent waiting for a slot does not count against the solver's timeout.
func solverSlot(ctx context.Context) (release func()) {
	dir := filepath.Join(os.TempDir(), "kvc-solver-slots")
	if os.MkdirAll(dir, 0o777) != nil {
		return func() {}
	}
	n := runtime.NumCPU()
	for {
		for i := 0; i < n; i++ {
			f, err := os.OpenFile(filepath.Join(dir, fmt.Sprintf("slot-%d", i)), os.O_CREATE|os.O_RDWR, 0o666)
			if err != nil {
				return func() {}
			}
			if syscall.Flock(int(f.Fd()), syscall.LOCK_EX|syscall.LOCK_NB) == nil {
				return func() { syscall.Flock(int(f.Fd()), syscall.LOCK_UN); f.Close() }
			}
			f.Close()
		}
		select {
		case <-ctx.Done():
			return func() {}
		case <-time.After(50 * time.Millisecond):
		}
	}
}

func runSolver(ctx context.Context, s solverSpec, file string, timeout time.Duration, seed int) solveResult {
	args := s.cmd(file, timeout, seed)
	release := solverSlot(ctx)
	defer release()
	cctx, cancel := context.WithTimeout(ctx, timeout+2*time.Second)
	defer cancel()
	cmd := exec.CommandContext(cctx, args[0], args[1:]...)
	var out bytes.Buffer
	cmd.Stdout = &out
	cmd.Stderr = &out
	start := time.Now()
	err := cmd.Run()
	dur := time.Since(start)
	text := out.String()
	first := strings.TrimSpace(strings.SplitN(text, "\n", 2)[0])
	switch first {
	case "unsat", "sat":
		return solveResult{first, s.name, text, dur}
	case "unknown":
		return solveResult{"unknown", s.name, text, dur}
	case "timeout":
		return solveResult{"timeout", s.name, text, dur}
	}
	if cctx.Err() != nil || strings.Contains(text, "timeout") || strings.Contains(text, "interrupted") {
		return solveResult{"timeout", s.name, text, dur}
	}
	_ = err
	return solveResult{"error", s.name, text, dur}
}

// solve decides one script: first a short run of z3-new alone, then a race of
// the whole portfolio. The first definitive answer wins.
func solve(file string, timeout time.Duration, seed int, cross bool) (solveResult, []solveResult) {
	var all []solveResult
	quickT := 3 * time.Second
	if timeout < quickT {
		quickT = timeout
	}
	r := runSolver(context.Background(), solvers[0], file, quickT, seed)
	all = append(all, r)
	if (r.status == "unsat" || r.status == "sat") && !cross {
		return r, all
	}
	first := r
	ctx, cancel := context.WithCancel(context.Background())
	defer cancel()
	ch := make(chan solveResult, len(solvers))
	n := 0
	for i, s := range solvers {
		if cross && i == 0 && (first.status == "unsat" || first.status == "sat") {
			continue
		}
		n++
		go func(s solverSpec) { ch <- runSolver(ctx, s, file, timeout, seed) }(s)
	}
	best := r
	definitive := first.status == "unsat" || first.status == "sat"
	for i := 0; i < n; i++ {
		x := <-ch
		all = append(all, x)
		if x.status == "unsat" || x.status == "sat" {
			if !definitive {
				best = x
				definitive = true
				if !cross {
					cancel()
					break
				}
			} else if cross && x.status != best.status {
				best = solveResult{"error", best.solver + "+" + x.solver, "SOLVER DISAGREEMENT: " + best.solver + "=" + best.status + " " + x.solver + "=" + x.status, x.dur}
			}
			if cross {
				// one confirming answer is enough
				cancel()
				break
			}
		} else if !definitive && (best.status == "error" || x.status == "timeout") {
			best = x
		}
	}
	return best, all
}

type solveOpts struct {
	timeout time.Duration
	seed    int
	par     int
	cross   bool
	workDir string
	keep    bool
	split   bool // decide leaf by leaf
}

func solveAll(cx *Ctx, obls []*Obligation, opt solveOpts) {
	os.MkdirAll(opt.workDir, 0o755)
	sem := make(chan struct{}, opt.par)
	var wg sync.WaitGroup
	for i, o := range obls {
		wg.Add(1)
		sem <- struct{}{}
		go func(i int, o *Obligation) {
			defer wg.Done()
			defer func() { <-sem }()
			script := cx.script(o)
			if len(script) > 4<<20 {
				o.Status, o.Output = "error", fmt.Sprintf("script too large: %d bytes", len(script))
				return
			}
			file := filepath.Join(opt.workDir, fmt.Sprintf("%s-%d.smt2", mangle(o.Name), i))
			os.WriteFile(file, []byte(script), 0o644)
			if o.ExpectSat {
				// vacuity canary: look for a contradiction with the same instantiation
				// machinery the proofs use (no model-based search)
				spec := solverSpec{"z3-new", func(f string, t time.Duration, seed int) []string {
					return []string{"z3-new", "smt.mbqi=false", fmt.Sprintf("-T:%d", int(t.Seconds())+1), f}
				}}
				if cx.strMode {
					spec = solvers[1] // cvc5: string theory with str.to_upper
				}
				r := runSolver(context.Background(), spec, file, 3*time.Second, opt.seed)
				o.Status, o.Solver, o.TimeS, o.Output, o.Script = r.status, r.solver, r.dur.Seconds(), r.out, file
				return
			}
			if !opt.split {
				r, _ := solve(file, opt.timeout, opt.seed, opt.cross)
				o.Status, o.Solver, o.TimeS, o.Output, o.Script = r.status, r.solver, r.dur.Seconds(), r.out, file
				return
			}
			// second stage: decide the goal leaf by leaf (the conjunction of the leaves is the goal)
			var ls []leafGoal
			leaves(nil, o.Goal.S, &ls)
			if len(ls) <= 1 {
				r, _ := solve(file, opt.timeout, opt.seed, opt.cross)
				o.Status, o.Solver, o.TimeS, o.Output, o.Script = r.status, r.solver, o.TimeS+r.dur.Seconds(), r.out, file
				return
			}
			all := true
			total := o.TimeS
			lastSolver := ""
			for j, l := range ls {
				g := l.goal
				for k := len(l.hyps) - 1; k >= 0; k-- {
					g = "(=> " + l.hyps[k] + " " + g + ")"
				}
				o2 := *o
				o2.Goal = Term{g, SBool}
				lf := filepath.Join(opt.workDir, fmt.Sprintf("%s-%d-leaf%d.smt2", mangle(o.Name), i, j))
				os.WriteFile(lf, []byte(cx.script(&o2)), 0o644)
				lr, _ := solve(lf, opt.timeout, opt.seed, opt.cross)
				total += lr.dur.Seconds()
				lastSolver = lr.solver
				if os.Getenv("KVC_LEAFTIME") == "1" {
					fmt.Fprintf(os.Stderr, "leaf %d/%d %s %s %.2fs: %.150s\n", j, len(ls), lr.status, lr.solver, lr.dur.Seconds(), l.goal)
				}
				if lr.status != "unsat" {
					all = false
					o.Status, o.Solver, o.Output, o.Script = lr.status, lr.solver, fmt.Sprintf("leaf %d of %d: %s\n%s", j, len(ls), l.goal, lr.out), lf
					break
				}
			}
			o.TimeS = total
			if all {
				o.Status, o.Solver = "unsat", "split:"+lastSolver
			}
		}(i, o)
	}
	wg.Wait()
}
