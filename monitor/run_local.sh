#!/bin/sh
# usage: monitor/run_local.sh <entropy|transform> [quick|thorough] [case]   (development helper)
pkg=$1; tier=${2:-quick}; repo=${KVC_REPO:-/repo}
w=/verif/.work/mon-$$; mkdir -p $w
sed -e "/^\/\/KVC-GEN/r /verif/monitor/gen_mon.go.txt" /verif/monitor/${MON:-$pkg}_mon_test.go.txt > $w/kvc_mon_test.go
echo "{\"Replace\":{\"$repo/v2/$pkg/kvc_mon_test.go\":\"$w/kvc_mon_test.go\"}}" > $w/ov.json
cd $repo/v2 && KVC_MON_TRACE=$KVC_MON_TRACE KVC_MON_GOLDEN=/verif/golden KVC_MON_SEED=$KVC_MON_SEED KVC_MON_PROP=$KVC_MON_PROP KVC_MON_TIER=$tier KVC_MON_CASE=$3 GOFLAGS=-mod=mod GOPROXY=off go test -overlay $w/ov.json -vet=off -count=1 -timeout 30m -v -run TestKvcMon ./$pkg/ 2>&1 | grep -v "^=== RUN" | tail -40
rm -rf $w
