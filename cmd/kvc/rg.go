package main

import (
	"go/token"
	"go/types"
)

// Rely/guarantee mode for the block hand-off protocol (DESIGN 2.10).
//
// The shared location p = *counter is written by several tasks; the task
// under verification has identifier id. Every task promises the guarantee
//     G(p, p'):  p' == -1  ||  (p == id-1 && p' == id)
// and may rely on the other tasks (ids j != id, j >= 1) keeping theirs.
// The symbolic executor keeps three facts that are stable under the rely
// (lemmas rg_stable_* in contracts/io.contracts, proved by SMT):
//     hold : p was observed equal to id-1 and the task has not written since
//            ==> p is id-1 or -1 until the task writes
//     pub  : the task moved p from id-1 to id  ==>  p >= id or p == -1 forever
//     done : the task has done what lets its successor leave the wait loop
//            (stored -1, observed -1, or attempted the id-1 -> id move)
// The value returned by an atomic load is arbitrary subject to these facts.
// Obligations: #guarantee at every atomic write, #access at every call on the
// shared stream (requires hold && !pub), #exit (done) at every normal exit.
type RG struct {
	ex      *Exec
	fc      *FuncContract
	counter Term // pointer term
	id      Term
	shared  Term // interface value of the shared stream
	ready   bool
	nG, nA  int
}

func newRG(ex *Exec, fc *FuncContract) *RG { return &RG{ex: ex, fc: fc} }

// init evaluates the three designators in the entry state.
func (rg *RG) init(top *Frame, st *State) {
	ex := rg.ex
	eval := func(key string) (Term, bool) {
		src := rg.fc.Opts[key]
		if src == "" {
			ex.cx.unsup("rg: missing opt %s", key)
			return Term{}, false
		}
		e, err := parseExpr(src)
		if err != nil {
			ex.cx.unsup("rg: %v", err)
			return Term{}, false
		}
		env := ex.specEnv(top, st, st)
		v := env.eval(e)
		sc, ok := v.V.(Sc)
		if !ok {
			ex.cx.unsup("rg: %s is not a scalar", src)
			return Term{}, false
		}
		return sc.T, true
	}
	var ok1, ok2, ok3 bool
	rg.counter, ok1 = eval("rg-counter")
	rg.id, ok2 = eval("rg-id")
	rg.shared, ok3 = eval("rg-shared")
	rg.ready = ok1 && ok2 && ok3
	st.vars["rg_hold"] = tFalse
	st.vars["rg_pub"] = tFalse
	st.vars["rg_done"] = tFalse
	st.vars["rg_canc"] = tFalse
	ex.cx.assume(app(SBool, ">=", rg.id, intLit(1)))
}

func (rg *RG) flag(st *State, name string) Term {
	if t, ok := st.vars[name]; ok {
		return t
	}
	return tFalse
}

func (rg *RG) isCounter(addr Val) bool {
	if !rg.ready {
		return false
	}
	t, ok := rg.ex.materialize(addr)
	return ok && t.S == rg.counter.S
}

func (rg *RG) atomicLoad(fr *Frame, st *State, addr Val, et types.Type, p token.Pos) Val {
	ex := rg.ex
	if !rg.isCounter(addr) {
		return ex.load(st, addr, et)
	}
	v := ex.cx.fresh("rg_load", SInt)
	ex.assumeWellTyped(v, et, tTrue)
	hold, pub := rg.flag(st, "rg_hold"), rg.flag(st, "rg_pub")
	idm1 := app(SInt, "-", rg.id, intLit(1))
	ex.cx.assume(implies(and(st.reach, hold, not(pub)), or(eq(v, idm1), eq(v, intLit(-1)))))
	ex.cx.assume(implies(and(st.reach, pub), or(app(SBool, ">=", v, rg.id), eq(v, intLit(-1)))))
	// the cancel value is sticky (stable fact "cancelled")
	ex.cx.assume(implies(and(st.reach, rg.flag(st, "rg_canc")), eq(v, intLit(-1))))
	st.vars["rg_canc"] = ex.cx.name("canc", or(rg.flag(st, "rg_canc"), eq(v, intLit(-1))))
	st.vars["rg_hold"] = ex.cx.name("hold", or(hold, and(not(pub), eq(v, idm1))))
	st.vars["rg_done"] = ex.cx.name("done", or(rg.flag(st, "rg_done"), eq(v, intLit(-1))))
	return Sc{v}
}

func (rg *RG) guarantee(st *State, goal Term, p token.Pos) {
	ex := rg.ex
	rg.nG++
	o := ex.cx.oblige("guarantee", "", st.reach, goal, ex.pos(p), nil)
	o.Name = ex.cx.fnName + "#guarantee@" + itoa(rg.nG)
}

func (rg *RG) atomicStore(fr *Frame, st *State, addr, v Val, et types.Type, p token.Pos) {
	ex := rg.ex
	if !rg.isCounter(addr) {
		ex.store(st, addr, v, et)
		return
	}
	x := v.(Sc).T
	// a plain store cannot know that p is still id-1: only the cancel value is allowed
	rg.guarantee(st, eq(x, intLit(-1)), p)
	st.vars["rg_done"] = ex.cx.name("done", or(rg.flag(st, "rg_done"), eq(x, intLit(-1)), eq(x, rg.id)))
	st.vars["rg_canc"] = ex.cx.name("canc", or(rg.flag(st, "rg_canc"), eq(x, intLit(-1))))
	st.vars["rg_pub"] = ex.cx.name("pub", or(rg.flag(st, "rg_pub"), eq(x, rg.id)))
}

func (rg *RG) atomicCAS(fr *Frame, st *State, addr, old, nw Val, et types.Type, p token.Pos) Val {
	ex := rg.ex
	if !rg.isCounter(addr) {
		cur := ex.load(st, addr, et).(Sc).T
		okT := ex.cx.name("cas", eq(cur, old.(Sc).T))
		ex.store(st, addr, Sc{ite(okT, nw.(Sc).T, cur)}, et)
		return Sc{okT}
	}
	o, n := old.(Sc).T, nw.(Sc).T
	idm1 := app(SInt, "-", rg.id, intLit(1))
	rg.guarantee(st, or(eq(n, intLit(-1)), and(eq(o, idm1), eq(n, rg.id))), p)
	okT := ex.cx.fresh("rg_cas", SBool)
	hold, pub := rg.flag(st, "rg_hold"), rg.flag(st, "rg_pub")
	// a failed CAS from id-1 while holding means p == -1 (cancelled)
	moved := and(okT, eq(o, idm1), eq(n, rg.id))
	st.vars["rg_pub"] = ex.cx.name("pub", or(pub, moved))
	st.vars["rg_canc"] = ex.cx.name("canc", or(rg.flag(st, "rg_canc"), and(not(okT), hold, not(pub), eq(o, idm1)), and(okT, eq(n, intLit(-1)))))
	st.vars["rg_done"] = ex.cx.name("done", or(rg.flag(st, "rg_done"), moved, and(not(okT), hold, eq(o, idm1)), and(okT, eq(n, intLit(-1)))))
	return Sc{okT}
}

// access: a call on the shared stream.
func (rg *RG) access(st *State, recv Term, what string, p token.Pos) {
	if !rg.ready || recv.S != rg.shared.S {
		return
	}
	ex := rg.ex
	rg.nA++
	goal := and(rg.flag(st, "rg_hold"), not(rg.flag(st, "rg_pub")))
	o := ex.cx.oblige("access", what, st.reach, goal, ex.pos(p), nil)
	o.Name = ex.cx.fnName + "#access:" + what + "@" + itoa(rg.nA)
}

func (rg *RG) exit(st *State, p token.Pos) {
	if !rg.ready {
		return
	}
	ex := rg.ex
	o := ex.cx.oblige("exit", "", st.reach, rg.flag(st, "rg_done"), ex.pos(p), nil)
	o.Name = ex.cx.fnName + "#exit:successor-can-proceed"
}

func itoa(n int) string {
	if n == 0 {
		return "0"
	}
	s := ""
	for n > 0 {
		s = string(rune('0'+n%10)) + s
		n /= 10
	}
	return s
}
