package main

// Bounded contract monitor (C12, C13): the codec bodies are outside the reach
// of the VC generator, so the contract of the interface (EntropyEncoder /
// EntropyDecoder, ByteTransform) is checked at run time on the REAL code over
// an enumerated, finite input space. The monitor sources live in
// /verif/monitor/*.go.txt and are injected into the package under test with
// `go test -overlay` (nothing is written into the repository). The result is
// labelled bounded (level "exploration") and is never counted as proved.

import (
	"bufio"
	"bytes"
	"encoding/json"
	"fmt"
	"os"
	"os/exec"
	"path/filepath"
	"regexp"
	"strconv"
	"strings"
	"time"
)

type monitorSpec struct {
	Pkg   string // package directory under v2
	File  string // monitor source in /verif/monitor
	Title string
}

var monitors = map[string]monitorSpec{
}

// supplements: bounded monitors that run in addition to the SMT obligations of
// a property (reported under coverage.bounded, never added to the proof counts).
var supplements = map[string]monitorSpec{
	"C12": {"entropy", "entropy_mon_test.go.txt", "entropy encoder/decoder pairs: decode(encode(b)) == b and the decoder consumes exactly the bits written (sentinel word)"},
	"C13": {"transform", "transform_mon_test.go.txt", "transform sequences as called by encode/decode: output within bounds, inverse restores the block into the decoder's buffer, declined blocks pass through intact, no panic"},
	"C15": {"io", "names_mon_test.go.txt", "name <-> type round trip over all chains of length <= 3 and all spellings; streams written with lower/mixed-case names are byte-identical to the canonical spelling and decode"},
	"C01": {"io", "stream_mon_test.go.txt", "codec-dependent part of the round trip: NewWriter/Write*/Close then NewReader/ReadAll returns the bytes written, over sampled configurations"},
	"C04": {"io", "stream_mon_test.go.txt", "codec-dependent part of determinism: identical compressed bytes for different job counts and splits of the data into Write calls"},
	"C02": {"io", "stream_mon_test.go.txt", "codec-dependent part: single-bit damage of checksummed streams never yields wrong bytes"},
	"C09": {"io", "stream_mon_test.go.txt", "codec-dependent part: truncated streams never decode successfully to fewer bytes"},
	"C11": {"io", "stream_mon_test.go.txt", "codec-dependent part: block ranges return exactly the bytes of those blocks"},
	"C05": {"io", "stream_mon_test.go.txt", "codec-dependent part: the decoded bytes are the original, in order, for 1, 2, 3 and 8 decoding jobs"},
	"C06": {"io", "stream_mon_test.go.txt", "stream level: sources delivering 1, 3, 7, 13 or 4096 bytes per call and consumers reading odd-sized pieces get the original bytes"},
	"C08": {"io", "stream_mon_test.go.txt", "codec-dependent part: sinks and sources that fail after a pseudo-random number of bytes are never answered with success on incomplete data"},
	"C03": {"io", "stream_mon_test.go.txt", "codec-dependent part: mutated streams never make the reader panic or run longer than 200 x the decoding time of the valid stream (at least 60 s, at most 300 s)"},
	"C10": {"io", "golden_mon_test.go.txt", "golden corpus: streams written by the reference snapshot 76efab5 decode to the bytes the reference wrote"},
	"C19": {"app", "cli_mon_test.go.txt", "the built binary on generated trees: round trips over levels and options, refusals (existing output without -f, output equal to input), --rm keeps the source when the output fails"},
	"C17": {"io", "stream_mon_test.go.txt", "lifecycle programs on the real Writer and Reader: operations after Close fail without side effects, Close idempotent, counters monotone"},
	"C14": {"bitstream", "bits_mon_test.go.txt", "bit-level content: values read back by ReadBit/ReadBits/ReadArray equal the values written by WriteBit/WriteBits/WriteArray, for unaligned counts and short reads"},
}

type monitorResult struct {
	Evals, Nontrivial int
	Rule              string
	Samples           []string
	Fails             []monitorFail
	Output            string
	Err               error
	WallS             float64
}

type monitorFail struct{ Case, What string }

var reFail = regexp.MustCompile(`KVC-FAIL case=(\S+) what=(.*)$`)

func runMonitor(prop, tier, oneCase string) monitorResult {
	spec, ok := monitors[prop]
	if !ok {
		spec = supplements[prop]
	}
	start := time.Now()
	var res monitorResult
	work := filepath.Join(verifDir(), ".work", fmt.Sprintf("mon-%s-%d", prop, os.Getpid()))
	os.MkdirAll(work, 0o755)
	defer os.RemoveAll(work)
	src, err := os.ReadFile(filepath.Join(verifDir(), "monitor", spec.File))
	if err != nil {
		res.Err = err
		return res
	}
	gen, err := os.ReadFile(filepath.Join(verifDir(), "monitor", "gen_mon.go.txt"))
	if err != nil {
		res.Err = err
		return res
	}
	text := strings.Replace(string(src), "//KVC-GEN", string(gen), 1)
	testFile := filepath.Join(work, "kvc_mon_test.go")
	os.WriteFile(testFile, []byte(text), 0o644)
	target := filepath.Join(repoDir(), "v2", spec.Pkg, "kvc_mon_test.go")
	ov, _ := json.Marshal(map[string]any{"Replace": map[string]string{target: testFile}})
	ovFile := filepath.Join(work, "overlay.json")
	os.WriteFile(ovFile, ov, 0o644)
	timeout := "20m"
	if tier == "thorough" {
		timeout = "120m"
	}
	cmd := exec.Command("go", "test", "-overlay", ovFile, "-vet=off", "-count=1", "-timeout", timeout, "-v", "-run", "TestKvcMon", "./"+spec.Pkg+"/")
	_ = ok
	cmd.Dir = filepath.Join(repoDir(), "v2")
	env := []string{}
	for _, e := range os.Environ() {
		if strings.HasPrefix(e, "GOFLAGS=") || strings.HasPrefix(e, "KVC_MON_") {
			continue
		}
		env = append(env, e)
	}
	env = append(env, "GOFLAGS=-mod=mod", "GOPROXY=off", "KVC_MON_TIER="+tier, "KVC_MON_CASE="+oneCase, "KVC_MON_PROP="+prop, "KVC_MON_GOLDEN="+filepath.Join(verifDir(), "golden"), "KVC_MON_SEED="+os.Getenv("VERIF_SEED"))
	cmd.Env = env
	var out bytes.Buffer
	cmd.Stdout = &out
	cmd.Stderr = &out
	runErr := cmd.Run()
	res.Output = out.String()
	sc := bufio.NewScanner(strings.NewReader(res.Output))
	sc.Buffer(make([]byte, 1<<20), 1<<20)
	sawPass := false
	for sc.Scan() {
		line := strings.TrimSpace(sc.Text())
		switch {
		case strings.HasPrefix(line, "KVC-EVALS "):
			res.Evals, _ = strconv.Atoi(strings.TrimPrefix(line, "KVC-EVALS "))
		case strings.HasPrefix(line, "KVC-NONTRIVIAL "):
			res.Nontrivial, _ = strconv.Atoi(strings.TrimPrefix(line, "KVC-NONTRIVIAL "))
		case strings.HasPrefix(line, "KVC-RULE "):
			res.Rule = strings.TrimPrefix(line, "KVC-RULE ")
		case strings.HasPrefix(line, "KVC-SAMPLE "):
			res.Samples = append(res.Samples, strings.TrimPrefix(line, "KVC-SAMPLE "))
		case strings.HasPrefix(line, "--- PASS: TestKvcMon"):
			sawPass = true
		default:
			if m := reFail.FindStringSubmatch(line); m != nil {
				res.Fails = append(res.Fails, monitorFail{m[1], m[2]})
			}
		}
	}
	if runErr != nil && len(res.Fails) == 0 {
		// build failure, crash of the test binary, timeout: not silent
		tail := res.Output
		if len(tail) > 3000 {
			tail = tail[len(tail)-3000:]
		}
		res.Err = fmt.Errorf("monitor run failed without a reported case: %v\n%s", runErr, tail)
	}
	if runErr == nil && !sawPass {
		res.Err = fmt.Errorf("monitor test did not run (no PASS line)")
	}
	res.WallS = time.Since(start).Seconds()
	return res
}

// monitorCheck is the whole check of a property decided by a monitor only.
func monitorCheck(prop, tier string, seed int, start time.Time) {
	spec := monitors[prop]
	info := loadPropInfo()[prop]
	known := loadKnown()
	res := runMonitor(prop, tier, "")
	violations := 0
	os.MkdirAll(filepath.Join(verifDir(), "replay"), 0o755)
	if res.Err != nil {
		fatalMachinery(prop, tier, seed, start, res.Err.Error())
	}
	for _, f := range res.Fails {
		name := "monitor:" + f.Case
		handled := false
		for _, k := range known {
			if k.Status == "known" && k.Property == prop && k.Obligation == name {
				fmt.Printf("KNOWN-FINDING: property=%s %s %s\n", prop, name, k.What)
				handled = true
			}
		}
		if handled {
			continue
		}
		violations++
		path := filepath.Join(verifDir(), "replay", fmt.Sprintf("%s-%s.json", prop, mangle(f.Case)))
		rf := map[string]any{"property": prop, "obligation": name, "kind": "bounded-monitor", "case": f.Case, "what": f.What, "tier": tier,
			"failing_input": "the case string is the input: it names the codec or chain, the generator shape, the size and the seed; `./check replay <this file>` rebuilds the input and runs the real code on it",
			"contract": spec.Title, "rerun": "cd /verif && ./check replay " + path}
		b, _ := json.MarshalIndent(rf, "", " ")
		os.WriteFile(path, b, 0o644)
		fmt.Printf("VIOLATION property=%s replay=%s obligation=%s (%s)\n", prop, path, name, f.What)
	}
	if res.Evals == 0 {
		fatalMachinery(prop, tier, seed, start, "the monitor evaluated no case")
	}
	var samples []any
	for _, s := range res.Samples {
		samples = append(samples, s)
	}
	cov := map[string]any{
		"evaluations":         res.Evals,
		"distinct_nontrivial": res.Nontrivial,
		"rule":                res.Rule,
		"samples":             samples,
		"exhaustive":          false,
		"bounded":             true,
		"contract_monitored":  spec.Title,
		"explanation":         info.Explain,
		"trusted_base":        info.Trusted,
		"checker_cmd":         fmt.Sprintf("cd /verif && ./check %s %s   (go test -overlay: monitor/%s injected into package %s of /repo)", prop, tier, spec.File, spec.Pkg),
		"failing_cases":       len(res.Fails),
		"obligations":         0,
		"discharged":          0,
	}
	level := info.Level
	if level == "" {
		level = "exploration"
	}
	asm := append([]string{"bounded: only the enumerated cases were executed; nothing is proved about other inputs"}, info.Assume...)
	ev := map[string]any{"property_id": prop, "tier": tier, "seed": seed, "level": level, "coverage": cov,
		"assumptions": asm, "wall_s": time.Since(start).Seconds(), "violations": violations}
	os.MkdirAll(filepath.Join(verifDir(), "evidence"), 0o755)
	b, _ := json.MarshalIndent(ev, "", " ")
	os.WriteFile(filepath.Join(verifDir(), "evidence", prop+".json"), b, 0o644)
	fmt.Printf("%s %s (bounded monitor): %d cases, %d non-trivial, %d failing, %d violations, %.1fs\n", prop, tier, res.Evals, res.Nontrivial, len(res.Fails), violations, time.Since(start).Seconds())
	if violations > 0 {
		os.Exit(1)
	}
}

// replayCmd re-runs what a replay file describes: a monitor case on the real
// code, or the SMT script of an undischarged obligation.
func replayCmd(args []string) {
	if len(args) < 1 {
		fmt.Fprintln(os.Stderr, "usage: kvc replay <file>")
		os.Exit(2)
	}
	b, err := os.ReadFile(args[0])
	if err != nil {
		fmt.Fprintln(os.Stderr, err)
		os.Exit(2)
	}
	var rf map[string]any
	if err := json.Unmarshal(b, &rf); err != nil {
		fmt.Fprintln(os.Stderr, err)
		os.Exit(2)
	}
	prop, _ := rf["property"].(string)
	if c, ok := rf["case"].(string); ok && c != "" {
		res := runMonitor(prop, "quick", c)
		if res.Err != nil {
			fmt.Println("replay: the monitor could not run:", res.Err)
			os.Exit(2)
		}
		if len(res.Fails) > 0 {
			fmt.Printf("replay: case %s still fails on the real code: %s\n", c, res.Fails[0].What)
			fmt.Printf("VIOLATION property=%s replay=%s obligation=monitor:%s (%s)\n", prop, args[0], c, res.Fails[0].What)
			os.Exit(1)
		}
		fmt.Printf("replay: case %s passes on the current tree\n", c)
		return
	}
	script, _ := rf["smt_script"].(string)
	if script == "" {
		fmt.Printf("replay: %v has no executable content (obligation %v: %v); re-run: %v\n", args[0], rf["obligation"], rf["what"], rf["rerun"])
		os.Exit(1)
	}
	work := filepath.Join(verifDir(), ".work", fmt.Sprintf("replay-%d", os.Getpid()))
	os.MkdirAll(work, 0o755)
	defer os.RemoveAll(work)
	f := filepath.Join(work, "o.smt2")
	os.WriteFile(f, []byte(script), 0o644)
	out, _ := exec.Command("z3-new", "-T:60", f).CombinedOutput()
	first := strings.SplitN(strings.TrimSpace(string(out)), "\n", 2)[0]
	fmt.Printf("replay: obligation %v, stored script re-run with z3-new: %s (unsat means the obligation holds for the stored formula; the check itself regenerates the formula from the current tree)\n", rf["obligation"], first)
	if first != "unsat" {
		fmt.Printf("VIOLATION property=%s replay=%s obligation=%v (stored script answers %s) no-failing-input-found\n", prop, args[0], rf["obligation"], first)
		os.Exit(1)
	}
}
