package main

import (
	"flag"
	"fmt"
	"os"
	"path/filepath"
	"sort"
	"strings"
	"time"
)

func main() {
	if len(os.Args) < 2 {
		fmt.Fprintln(os.Stderr, "usage: kvc fn|check|dump ...")
		os.Exit(2)
	}
	switch os.Args[1] {
	case "dump":
		dumpCmd(os.Args[2:])
	case "fn":
		fnCmd(os.Args[2:])
	default:
		fmt.Fprintln(os.Stderr, "unknown command", os.Args[1])
		os.Exit(2)
	}
}

func fnCmd(args []string) {
	fs := flag.NewFlagSet("fn", flag.ExitOnError)
	timeout := fs.Duration("timeout", 20*time.Second, "per-obligation timeout")
	verbose := fs.Bool("v", false, "verbose")
	only := fs.String("only", "", "substring filter on obligation names")
	keep := fs.Bool("keep", false, "keep scripts")
	fs.BoolVar(&debugPanics, "debug", false, "re-panic on generator panics")
	fs.Parse(args)
	pat := fs.Args()
	ld, err := loadRepo()
	if err != nil {
		fmt.Fprintln(os.Stderr, err)
		os.Exit(2)
	}
	cs, warns, err := loadContracts(ld)
	for _, w := range warns {
		fmt.Fprintln(os.Stderr, "warning:", w)
	}
	if err != nil {
		fmt.Fprintln(os.Stderr, err)
		os.Exit(2)
	}
	var keys []string
	for k, fc := range cs.Funcs {
		if fc.IsIface || fc.Trusted {
			continue
		}
		match := len(pat) == 0
		for _, p := range pat {
			if strings.Contains(fnDisplayName(fc.Pkg, fc.Key), p) {
				match = true
			}
		}
		if match {
			keys = append(keys, k)
		}
	}
	sort.Strings(keys)
	work := filepath.Join(verifDir(), ".work", fmt.Sprintf("fn-%d", os.Getpid()))
	bad := 0
	for _, k := range keys {
		fc := cs.Funcs[k]
		t0 := time.Now()
		res := generate(ld, cs, fc)
		gen := time.Since(t0)
		var obls []*Obligation
		for _, o := range res.Obls {
			if *only == "" || strings.Contains(o.Name, *only) {
				obls = append(obls, o)
			}
		}
		t1 := time.Now()
		solveAll(res.cx, obls, solveOpts{timeout: *timeout, seed: 1, par: 6, workDir: work, keep: *keep})
		fmt.Printf("== %s  mode=%s  obligations=%d  gen=%.2fs solve=%.2fs\n", res.Name, res.Mode, len(obls), gen.Seconds(), time.Since(t1).Seconds())
		for _, u := range res.Unsupported {
			fmt.Printf("   UNSUPPORTED: %s\n", u)
			bad++
		}
		for _, o := range obls {
			okay := (o.Status == "unsat" && !o.ExpectSat) || (o.Status == "sat" && o.ExpectSat)
			if !okay {
				bad++
			}
			if !okay || *verbose {
				mark := "ok  "
				if !okay {
					mark = "FAIL"
				}
				fmt.Printf("   %s %-70s %-8s %-7s %.2fs  %s:%d\n", mark, o.Name, o.Status, o.Solver, o.TimeS, filepath.Base(o.Pos.Filename), o.Pos.Line)
				if !okay && o.Status == "error" {
					lines := strings.Split(strings.TrimSpace(o.Output), "\n")
					if len(lines) > 3 {
						lines = lines[:3]
					}
					fmt.Printf("        %s\n", strings.Join(lines, "\n        "))
				}
			}
		}
		if *verbose {
			sort.Strings(res.Notes)
			for _, n := range res.Notes {
				fmt.Printf("   note: %s\n", n)
			}
		}
	}
	if !*keep && bad == 0 {
		os.RemoveAll(work)
	}
	if bad > 0 {
		fmt.Printf("%d problems (scripts kept in %s)\n", bad, work)
		os.Exit(1)
	}
}
