package main

import (
	"go/token"
	"go/types"
	"math/big"

	"golang.org/x/tools/go/ssa"
)

var bigZero = big.NewInt(0)

// Maps: a map value is a Ref; contents live in two heaps per (key sort, value sort):
//   MH!k!v : (Array Ref (Array K Bool))   presence
//   MV!k!v : (Array Ref (Array K V))      values

func (ex *Exec) mapHeaps(mt types.Type) (hName, vName, ks, vs string, ok bool) {
	m := mt.Underlying().(*types.Map)
	ks, ok1 := ex.cx.sortOf(m.Key())
	vs, ok2 := ex.cx.sortOf(m.Elem())
	if !ok1 || !ok2 {
		ex.cx.unsup("map type %s", mt)
		return "", "", "", "", false
	}
	suffix := mangle(ks) + "!" + mangle(vs)
	return "MH!" + suffix, "MV!" + suffix, ks, vs, true
}

func (ex *Exec) initMap(st *State, ref Term, mt types.Type) {
	hn, _, ks, _, ok := ex.mapHeaps(mt)
	if !ok {
		return
	}
	hs := arrSort(SRef, arrSort(ks, SBool))
	h := ex.heap(st, hn, hs)
	empty := Term{"((as const " + arrSort(ks, SBool) + ") false)", arrSort(ks, SBool)}
	ex.setHeap(st, hn, ex.cx.name("h", store(h, ref, empty)))
}

func (ex *Exec) mapUpdate(st *State, m, k, v Val, mt types.Type, fr *Frame, p token.Pos) {
	hn, vn, ks, vs, ok := ex.mapHeaps(mt)
	if !ok {
		return
	}
	ref := m.(Sc).T
	fr.mustHold(st, "nilmap", not(eq(ref, tNull)), p)
	kt := ex.scalarOf(k)
	vt := ex.scalarOf(v)
	hs := arrSort(SRef, arrSort(ks, SBool))
	vsrt := arrSort(SRef, arrSort(ks, vs))
	h := ex.heap(st, hn, hs)
	vh := ex.heap(st, vn, vsrt)
	ex.setHeap(st, hn, ex.cx.name("h", store(h, ref, store(sel(h, ref), kt, tTrue))))
	ex.setHeap(st, vn, ex.cx.name("h", store(vh, ref, store(sel(vh, ref), kt, vt))))
}

func (ex *Exec) mapGet(st *State, ref, key Term, mt types.Type) (has, val Term, ok bool) {
	hn, vn, ks, vs, ok := ex.mapHeaps(mt)
	if !ok {
		return tFalse, Term{}, false
	}
	h := ex.heap(st, hn, arrSort(SRef, arrSort(ks, SBool)))
	vh := ex.heap(st, vn, arrSort(SRef, arrSort(ks, vs)))
	has = and(not(eq(ref, tNull)), sel(sel(h, ref), key))
	val = sel(sel(vh, ref), key)
	return has, val, true
}

func (ex *Exec) lookup(st *State, fr *Frame, x *ssa.Lookup) Val {
	if _, isMap := x.X.Type().Underlying().(*types.Map); !isMap {
		// string index
		s := fr.val(x.X).(Sc).T
		idx := fr.idxTerm(fr.val(x.Index), x.Index.Type())
		fr.boundsCheck(st, idx, ex.strLen(s), x.Pos())
		ex.cx.declFun("str$at", []string{ex.cx.strSort(), ex.cx.intS()}, ex.byteSort())
		return Sc{app(ex.byteSort(), "str$at", s, idx)}
	}
	mt := x.X.Type()
	ref := fr.val(x.X).(Sc).T
	key := ex.scalarOf(fr.val(x.Index))
	has, val, ok := ex.mapGet(st, ref, key, mt)
	et := mt.Underlying().(*types.Map).Elem()
	if !ok {
		if x.CommaOk {
			return Agg{F: []Val{ex.havocVal("mv", et), Sc{ex.cx.fresh("mok", SBool)}}}
		}
		return ex.havocVal("mv", et)
	}
	has = ex.cx.name("has", has)
	z := ex.zeroVal(et).(Sc).T
	v := ex.cx.name("mv", ite(has, val, z))
	ex.assumeWellTyped(v, et, tTrue)
	ex.assumeOld(st, v, st.reach)
	if x.CommaOk {
		return Agg{F: []Val{Sc{v}, Sc{has}}}
	}
	return Sc{v}
}

// range over maps / strings: nondeterministic iteration.
type rangeIter struct {
	x   *ssa.Range
	ref Term
}

func (ex *Exec) rangeInit(fr *Frame, st *State, x *ssa.Range) Val {
	v := fr.val(x.X)
	sc, _ := v.(Sc)
	return rangeIter{x: x, ref: sc.T}
}

func (ex *Exec) rangeNext(fr *Frame, st *State, x *ssa.Next) Val {
	it, _ := fr.val(x.Iter).(rangeIter)
	okT := ex.cx.fresh("next_ok", SBool)
	tup := x.Type().(*types.Tuple)
	kv := ex.havocVal("next_k", tup.At(1).Type())
	vv := ex.havocVal("next_v", tup.At(2).Type())
	if !x.IsString && it.x != nil {
		mt := it.x.X.Type()
		if ksc, isSc := kv.(Sc); isSc {
			has, val, ok := ex.mapGet(st, it.ref, ksc.T, mt)
			if ok {
				ex.cx.assume(implies(okT, has))
				if vsc, ok2 := vv.(Sc); ok2 && vsc.T.Sort == val.Sort {
					ex.cx.assume(implies(okT, eq(vsc.T, val)))
				}
			}
		}
	}
	return Agg{F: []Val{Sc{okT}, kv, vv}}
}
