#!/bin/sh
# ./check benign [names...] : behaviour-preserving changes under benign/<name>/ must not raise an alarm.
# Each is applied to a scratch clone; the checks listed in its meta.json run against it. Entries whose
# meta.json result starts with "alarm:" are known limitations (8.65 of DESIGN.md) and are reported as such.
cd "$(dirname "$0")/.." || exit 2
names="$@"; [ -z "$names" ] && names=$(ls benign)
bad=0
for n in $names; do
  props=$(jq -r '.checks_run | join(" ")' benign/$n/meta.json)
  expect=$(jq -r .result benign/$n/meta.json | cut -c1-5)
  out=$(tools/try_benign.sh benign/$n/patch.diff $props 2>&1); rc=$?
  if [ $rc -eq 0 ]; then echo "$n: quiet ($props)";
  elif [ "$expect" = "alarm" ]; then echo "$n: alarm (known limitation) ($props)";
  else echo "$n: UNEXPECTED ALARM ($props)"; echo "$out" | grep VIOLATION | head -3; bad=1; fi
done
exit $bad
