#!/usr/bin/env python3
"""Generates MANIFEST.json and props.json from the table below (run from /verif)."""
import json, subprocess

T1 = "T1 the Go front end (go/packages, go/types, go/ssa NaiveForm) and kvc's translation of SSA instructions and contracts to SMT-LIB"
T2 = "T2 the SMT solvers z3 5.1.0, cvc5 1.0.3, z3 4.8.12 (thorough tier cross-checks two of them)"
T3 = "T3 sequential reduction of the structured fork/join in processBlock: a `go task.f(x)` is executed under f's contract at the spawn point, WaitGroup.Wait is a no-op; sync/atomic operations are sequentially consistent"
T4 = "T4 assumed interface contracts (iface blocks in contracts/*.contracts): io.Writer, io.Reader, io.Closer, kanzi.OutputBitStream, kanzi.InputBitStream; DefaultOutput/InputBitStream are proved against their own concrete contracts, the refinement of the interface contracts by them is argued, not checked"
T5 = "T5 unmodelled callees (named in `assumptions`) return arbitrary values, may overwrite their slice arguments, and touch no other tracked state; they may panic only where the caller has a deferred recover (then every call is given a panic edge)"
T6 = "T6 arithmetic lemmas instantiated by the generator: defining facts of div/mod for positive divisors, product tautologies (kvc/arith.go)"
T7 = "T7 memory model: make never fails; distinct allocations are distinct objects; pointer parameters of unknown shape do not alias fields accessed directly in the same function"
TG = "ghost definitions (`ghostdef` clauses) are definitions of ghost counters, not proved facts: obs.plain (plain bytes of blocks whose task completed), obase/ibase (stream offset at construction)"

props = {
 "C01": dict(level="other", claim="container part only: the Writer accepts bytes, partitions them into blocks and hands every accepted byte to exactly one successful block task before Close reports success (plain-byte accounting obs.plain + available), header fields are written once, end marker last; codecs are not verified",
   explain="Contracts on Writer.Write/processBlock/Close/writeHeader, encodingTask.encode and ComputeJobsPerTask are discharged by SMT for all inputs. Decided: on success every accepted byte was handed to a block task that published its block (no byte dropped or left behind for any job count, size hint or split of the data), buffers are never indexed out of range, Close is complete or reports an error. Not decided: that each block decodes to its input (transform and entropy codecs are assumed to be inverse pairs, C12/C13), the header round trip at bit level, configurations rejected late by codec constructors.",
   trusted=[T1,T2,T3,T4,T5,T6,T7,TG]),
 "C02": dict(level="other", claim="after any block error nothing unverified is delivered: failed blocks are not counted or copied, the cursor is reset, the stream is invalidated; the hash loops are proved to consume every byte of their argument (n == end == len(data) at return), the comparison itself is not under contract",
   explain="Contracts on Reader.Read/processBlock and decodingTask.decode. Decided for all inputs: a block whose task reports an error (checksum mismatch included) contributes no byte to the delivered data (atreturn obligation `delivered-bytes-were-copied`), every error invalidates the stream (blockID == cancel), later Read calls deliver nothing (`ended-stays-ended`). XXHash32/64.Hash: the stripe loop and both tail loops advance by exactly the bytes they mix and end at len(data) (no byte left out of the digest). Not decided here: that decode compares the recomputed hash with the stored one on exactly the delivered bytes (decode's hash calls are unmodelled in decode's own contract) and hash collisions.",
   trusted=[T1,T2,T3,T4,T5,T6,T7]),
 "C03": dict(level="other", claim="panic containment and no-panic of the caller-side reader code; termination of codec code not decided",
   explain="decodingTask.decode and Reader.readHeader are verified with a panic edge after every call: every panic is caught by their deferred recover and turned into an error (`nopanic:escapes`); Reader.Read, Reader.processBlock (after the join) and Reader.Close are proved free of index, slice, nil, division and type-assertion panics under the Reader invariant. Not decided: termination and time bounds of codec loops, goroutines spawned inside codecs (inverse BWT workers), allocation sizes.",
   trusted=[T1,T2,T3,T4,T5,T6,T7]),
 "C04": dict(level="other", claim="sequential part: the partition of the data into blocks does not depend on Write boundaries, job count or size hint; schedule independence relies on the hand-off obligations of C07; per-block purity of codecs not decided",
   explain="Writer.Write's postcondition is stated over the accepted byte count only (accounting clause), Writer.processBlock emits every pending byte in buffer order with consecutive ids whatever nbTasks is (clauses all-pending-emitted, token-moves-by-one). Not decided: that a block's bits are a function of its bytes only (codec purity), byte-level identity of streams.",
   trusted=[T1,T2,T3,T4,T5,T6,T7,TG]),
 "C05": dict(level="other", claim="sequential gathering logic: results are consumed in task order, only good non-skipped blocks are compacted, an error or the end marker invalidates the stream for all later calls; concurrency via C07",
   explain="Reader.processBlock/Read and decodingTask.decode contracts (all discharged): blocks are read from the shared stream in id order (token-moves-by-one), the bytes returned were copied from results that precede the first failed one, after an error or end of stream every later call returns no data. Not decided: byte-level equality of the delivered sequence with the decoded blocks (no content-level view yet).",
   trusted=[T1,T2,T3,T4,T5,T6,T7]),
 "C06": dict(level="proof", claim="input bitstream under arbitrary short reads (io.Reader contract allows any 1..len(p) bytes per call): accounting, refill to whole words, panics only when the source is exhausted; Write/Read chunk-independent accounting",
   explain="", trusted=[T1,T2,T4,T5,T6,T7]),
 "C07": dict(level="other", claim="sequential protocol contracts of encode/decode (token moves by exactly one, only forward, error or end cancels, cancelled task does nothing) and first-error scan in processBlock; interleavings are covered by the rely/guarantee obligations on the atomic sites (rg.go) when present, liveness is not decided",
   explain="encode/decode are verified against: error ==> cancel stored; success ==> token was id-1 and is now id; cancelled ==> nothing read or written. Writer/Reader.processBlock: any task error is returned by the enclosing call, a cancelled writer reports an error. Not decided: fairness/termination of the wait loops.",
   trusted=[T1,T2,T3,T4,T5,T6,T7]),
 "C08": dict(level="proof", claim="error-propagation chain as exceptional postconditions: sink error -> flush returns it with state kept -> push/WriteArray panic -> task recover sets res.err and cancels -> processBlock returns it -> Write/Close return it; Close success implies every accepted byte was emitted and the bitstream closed; source error -> deferred -> pull panics only when the source is done",
   explain="", trusted=[T1,T2,T3,T4,T5,T6,T7,TG]),
 "C09": dict(level="proof", claim="a read never goes beyond the source (rbits <= 8*len(src)), fewer bits than requested ==> panic ==> error; end of stream is reported only after a zero length field was read successfully; Close writes the end marker last",
   explain="", trusted=[T1,T2,T3,T4,T5,T6,T7]),
 "C10": dict(level="other", claim="three layers: (1) header write/read functions under contract (field order and widths through the token tape), (2) the round functions of XXHash32/XXHash64 proved equal, in 32/64-bit vector arithmetic, to formulas pinned from the reference snapshot, and the hash loops proved to consume every input byte, (3) every package-level constant and literal table referenced from decode-side code compared with the value pinned from the reference snapshot (207 entries, decided by go/types constant evaluation, no solver); codec bodies and the golden corpus are not decided",
   explain="Decided: a change of any magic number, header width, name/type table, hash prime/rotation or codec table of the pinned set, or of the bytes covered by the hashes, fails a named obligation. Not decided: that codec bodies still decode old streams when their code (not their constants) changes; that needs the golden corpus of the property, which is a test, not a contract.",
   trusted=[T1,T2,T4,T5,T6,T7]),
 "C11": dict(level="other", claim="skip logic: a task reports skipped only for ids outside [from,to), a skipped task decodes nothing, decoded blocks are inside the range; an all-skipped batch is repeated, not mistaken for end of stream",
   explain="decode clauses skipped-only-outside-range / decoded-only-inside-range / skipped-not-decoded and Reader.processBlock's outer loop invariant (all skipped ==> nothing decoded, token advanced, repeat) are discharged. Not decided: that block k covers bytes (k-1)*B..k*B-1 of the original (needs the content-level view of C01).",
   trusted=[T1,T2,T3,T4,T5,T6,T7]),
 "C14": dict(level="proof", claim="bitstream writer and reader: counters equal the sum of operation sizes at every step, byte view of buffer+sink is only appended to, push stores the word big-endian, closed streams refuse, Close pads to a byte and keeps Written(); bit-level content of WriteBits/ReadBits/WriteArray/ReadArray inside a word is not yet proved",
   explain="", trusted=[T1,T2,T4,T5,T6,T7,TG]),
 "C15": dict(level="other", claim="name<->type tables only: for transform tokens and entropy codecs the real lookup functions are proved (SMT string theory, cvc5) to accept exactly the pinned table, to be case-insensitive (result depends on upper(name) only) and to round-trip type -> name -> type and name -> type -> canonical upper-case name; chain splitting/packing (transform.GetType/GetName loops) and the agreement of string-selected codec variants with the header types are not decided yet",
   explain="entropy.GetName/GetType and transform.getByteFunctionNameToken/getByteFunctionTypeToken are verified in string mode (Go strings are SMT strings, strings.ToUpper is str.to_upper). Not decided: chains (split on '+', NONE removal, 8 slots of 6 bits), variant selection by raw context string (ROLZX, TPAQX, fast-entropy checks), byte identity of streams produced from different spellings.",
   trusted=[T1,T2,T5,T7,"T9 SMT-LIB string theory (cvc5 str.to_upper) stands for Go's strings.ToUpper on the ASCII names of the table; non-ASCII case folding is not modelled"]),
 "C16": dict(level="other", claim="the four clauses of the property are postconditions of the real NormalizeFrequencies (sum == scale, present symbols kept >= 1, absent symbols 0, alphabet strictly increasing and in range), discharged by SMT for all histograms; the sum clause carries a second disjunct (sum > scale and every entry <= 1) whose impossibility (256 entries <= 1 sum to at most 256 <= scale) is argued in DESIGN.md, not machine-checked",
   explain="Contract on entropy.NormalizeFrequencies with six loop invariants (123 obligations). sum(a,lo,hi) is an uninterpreted function with the store lemma L1 and the empty-range axiom; the unfolding instances and the non-negativity of suffix sums are stated as assumptions (listed). Frequencies are assumed to stay below 2^60 inside the redistribution loops (machine arithmetic). Call sites (ANS, Range) are not under contract yet.",
   trusted=[T1,T2,T5,T6,T7,"T8 lemmas about sum$: L1 store/point-update, empty range; assumed instances: left unfolding at the loop index, suffix sums of a non-negative array are non-negative"]),
 "C17": dict(level="proof", claim="lifecycle contracts of Writer, Reader and both bitstreams: Close idempotent, Write/Read after Close fail without side effects, Write returns the full length on success, counters monotone, successful Close leaves the bitstream closed with every accepted byte emitted",
   explain="", trusted=[T1,T2,T3,T4,T5,T6,T7,TG]),
}
not_applicable = {
 "C12": "not claimed yet: entropy codec bodies are out of reach of the verifier (see DESIGN 3/C12); the bounded contract monitor is not built yet",
 "C13": "not claimed yet: transform bodies are out of reach of the verifier (see DESIGN 3/C13); the bounded contract monitor is not built yet",
 "C18": "data-race freedom of all library code under all schedules needs a permission logic and a heap-footprint analysis the WP generator does not have; a race detector over explored schedules is a different family (DESIGN section 4)",
 "C19": "not claimed yet: file-safety ordering obligations of the CLI not built yet",
}
hooks = subprocess.run(["git","-C","/repo","log","--format=%H %s"],capture_output=True,text=True).stdout.strip().split("\n")
hook_commits=[l.split()[0] for l in hooks if " verif hook:" in " "+l]
man={
 "version":1,
 "setup_cmd":"cd /verif && GOFLAGS=-mod=vendor GOPROXY=off go build -o bin/kvc ./cmd/kvc",
 "hooks":{"guard":"verif","enable":"-tags verif: adds comment-only files v2/<pkg>/contracts_verif.go holding the //@ contracts read by kvc; no executable code",
  "baseline_off_cmd":"for m in $(cat /w/out/gomods.txt); do MF=$(cd /repo/$m && . /w/out/goenv.sh && gomodflag); (cd /repo/$m && go test $MF -json -vet=off -count=1 -timeout 25m ./...); done",
  "source_commits":hook_commits,"add_only":True},
 "engines":[{"name":"kvc","path":"/verif/cmd/kvc","serves_properties":sorted(props),"kind_free_text":"contract-based deductive verifier built here: VC generation by symbolic execution with state merging over go/ssa (NaiveForm) of the real functions in /repo, loop cutting at invariants, contracts in //@ comment files, obligations discharged by z3 5.1.0 / cvc5 1.0.3 / z3 4.8.12"}],
 "checks":[],"notes":"see DESIGN.md; every check regenerates its obligations from /repo's working tree","not_applicable":[]
}
pj={}
for pid in sorted(props):
    p=props[pid]
    man["checks"].append({"property_id":pid,"quick_cmd":"./check %s quick"%pid,"thorough_cmd":"./check %s thorough"%pid,
      "evidence_file":"evidence/%s.json"%pid,"replay_cmd_template":"./check replay {path}","engine":"kvc",
      "level_claimed":{"category":p["level"],"text":p["claim"],"design_ref":"DESIGN.md section 3 (%s) and section 8"%pid},
      "level_note":"; ".join(t.split(" ",1)[0] for t in p["trusted"])+" - see evidence.coverage.trusted_base; "+("partial claim: "+p["explain"][:300] if p["level"]=="other" else "all obligations discharged for all inputs"),
      "technique":"contract-based deductive verification (own VC generator over go/ssa, SMT back ends)"})
    pj[pid]={"level":p["level"],"trusted_base":p["trusted"],"explanation":p["explain"] or p["claim"],"assumptions":[]}
for pid,r in sorted(not_applicable.items()):
    man["not_applicable"].append({"property_id":pid,"reason":r})
json.dump(man,open("MANIFEST.json","w"),indent=1)
json.dump(pj,open("props.json","w"),indent=1)
print("claimed",len(props),"not applicable",len(not_applicable))
