package main

import (
	"go/token"
	"go/types"
)

// RG: rely/guarantee mode for the hand-off protocol (filled in later).
type RG struct {
	ex *Exec
	fc *FuncContract
}

func newRG(ex *Exec, fc *FuncContract) *RG { return &RG{ex: ex, fc: fc} }

func (rg *RG) atomicLoad(fr *Frame, st *State, addr Val, et types.Type, p token.Pos) Val {
	return rg.ex.load(st, addr, et)
}
func (rg *RG) atomicStore(fr *Frame, st *State, addr, v Val, et types.Type, p token.Pos) {
	rg.ex.store(st, addr, v, et)
}
func (rg *RG) atomicCAS(fr *Frame, st *State, addr, old, nw Val, et types.Type, p token.Pos) Val {
	ex := rg.ex
	cur := ex.load(st, addr, et).(Sc).T
	okT := ex.cx.name("cas", eq(cur, old.(Sc).T))
	ex.store(st, addr, Sc{ite(okT, nw.(Sc).T, cur)}, et)
	return Sc{okT}
}
