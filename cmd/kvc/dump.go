package main

import (
	"fmt"
	"os"
)

func dumpCmd(args []string) {
	ld, err := loadRepo()
	if err != nil {
		fmt.Fprintln(os.Stderr, err)
		os.Exit(2)
	}
	pkg := modPath
	if args[0] != "" && args[0] != "." {
		pkg += "/" + args[0]
	}
	fn := ld.findFunc(pkg, normFuncKey(args[1]))
	if fn == nil {
		fmt.Fprintln(os.Stderr, "not found")
		os.Exit(1)
	}
	fn.WriteTo(os.Stdout)
	for _, af := range fn.AnonFuncs {
		af.WriteTo(os.Stdout)
	}
}
