package main

import (
	"fmt"
	"go/token"
	"go/types"
	"strings"

	"golang.org/x/tools/go/ssa"
)

const maxInlineDepth = 6

func (ex *Exec) call(fr *Frame, st *State, instr ssa.Instruction, c *ssa.CallCommon, p token.Pos) (Val, *State) {
	v, st2 := ex.call0(fr, st, instr, c, p)
	if st2 != nil && ex.fc != nil && len(ex.fc.AfterCall) > 0 && fr.isTop {
		ex.afterCallClauses(fr, st2, c, v)
	}
	return v, st2
}

func (ex *Exec) call0(fr *Frame, st *State, instr ssa.Instruction, c *ssa.CallCommon, p token.Pos) (Val, *State) {
	var args []Val
	if c.IsInvoke() {
		args = append(args, fr.val(c.Value))
	}
	for _, a := range c.Args {
		args = append(args, fr.val(a))
	}
	ex.atCallClauses(fr, st, c, args, p)
	if fr.isTop && ex.fc != nil && ex.fc.Opts["callees"] == "abstract" {
		// every callee outside the package of the function under verification is
		// abstracted: arbitrary results, no effect on tracked state (over-approximation
		// for properties of this function's own control flow)
		abstract := c.IsInvoke()
		if f, ok := c.Value.(*ssa.Function); ok && (f.Pkg == nil || f.Pkg != ex.fn.Pkg) {
			abstract = true
		}
		if abstract {
			if _, isBuiltin := c.Value.(*ssa.Builtin); !isBuiltin {
				return ex.unmodelledCall(fr, st, c, args, calleeName(c)+" (abstracted)", p), st
			}
		}
	}
	if c.IsInvoke() {
		recv := args[0].(Sc).T
		fr.mustHold(st, "nil-iface", not(eq(recv, nilIface())), p)
		if ex.rg != nil {
			ex.rg.access(st, recv, c.Method.Name(), p)
		}
		fc := ex.ifaceContract(c)
		if fc == nil {
			return ex.unmodelledCall(fr, st, c, args, ifaceMethodName(c), p), st
		}
		names := append([]string{"this"}, fc.IfaceParams...)
		var ptypes []types.Type
		ptypes = append(ptypes, c.Value.Type())
		sig := c.Method.Type().(*types.Signature)
		for i := 0; i < sig.Params().Len(); i++ {
			ptypes = append(ptypes, sig.Params().At(i).Type())
		}
		return ex.applyContract(fr, st, fc, names, ptypes, args, sig.Results(), fc.IfaceResults, ifaceMethodName(c), p)
	}
	switch callee := c.Value.(type) {
	case *ssa.Builtin:
		return ex.builtin(fr, st, callee, c, args, p), st
	case *ssa.Function:
		return ex.callFunction(fr, st, callee, args, nil, c, p, false)
	case *ssa.MakeClosure:
		fv := fr.val(callee).(FuncV)
		return ex.callFunction(fr, st, fv.Fn, args, fv.Bindings, c, p, true)
	}
	if fv, ok := fr.val(c.Value).(FuncV); ok {
		return ex.callFunction(fr, st, fv.Fn, args, fv.Bindings, c, p, fv.Bindings != nil)
	}
	return ex.unmodelledCall(fr, st, c, args, "func-value", p), st
}

func ifaceMethodName(c *ssa.CallCommon) string {
	return ifaceKey(c.Method)
}

func ifaceKey(m *types.Func) string {
	sig := m.Type().(*types.Signature)
	if sig.Recv() != nil {
		if n, ok := sig.Recv().Type().(*types.Named); ok {
			pn := "builtin"
			if n.Obj().Pkg() != nil {
				pn = n.Obj().Pkg().Name()
			}
			return pn + "." + n.Obj().Name() + "." + m.Name()
		}
	}
	return "?." + m.Name()
}

func (ex *Exec) ifaceContract(c *ssa.CallCommon) *FuncContract {
	return ex.cs.Funcs["iface "+ifaceKey(c.Method)]
}

func funcKey(fn *ssa.Function) (pkg, key string) {
	if fn.Pkg == nil {
		if fn.Parent() != nil {
			return funcKey(fn.Parent())
		}
		return "", fn.Name()
	}
	pkg = fn.Pkg.Pkg.Path()
	if recv := fn.Signature.Recv(); recv != nil {
		t := recv.Type()
		ptr := ""
		if p, ok := t.(*types.Pointer); ok {
			ptr = "*"
			t = p.Elem()
		}
		if n, ok := t.(*types.Named); ok {
			return pkg, "(" + ptr + n.Obj().Name() + ")." + fn.Name()
		}
	}
	return pkg, fn.Name()
}

func (ex *Exec) contractOf(fn *ssa.Function) *FuncContract {
	pkg, key := funcKey(fn)
	return ex.cs.Funcs[pkg+" "+key]
}

func (ex *Exec) shouldInline(fn *ssa.Function) bool {
	if len(fn.Blocks) == 0 || fn.Pkg == nil && fn.Parent() == nil {
		return false
	}
	if fn.Pkg != nil && !strings.HasPrefix(fn.Pkg.Pkg.Path(), "github.com/flanglet/kanzi-go") {
		return false
	}
	n := 0
	for _, b := range fn.Blocks {
		n += len(b.Instrs)
		for _, ins := range b.Instrs {
			if c, ok := ins.(*ssa.Call); ok {
				if f, ok := c.Call.Value.(*ssa.Function); ok && f == fn {
					return false
				}
			}
			if _, ok := ins.(*ssa.Go); ok {
				return false
			}
		}
	}
	li := analyzeLoops(fn)
	if len(li.heads) == 0 {
		return n <= 60
	}
	// small helpers with loops and no contract (typically extracted from a function under
	// contract): inlined too, their loops cut with the invariant `true` and the modified set
	// found by the scan, which over-approximates them. Listener notification helpers keep
	// their old treatment (unmodelled, T5).
	return n <= 200 && len(li.heads) == 1 && !strings.Contains(strings.ToLower(fn.Name()), "listener")
}

// callFunction: contract, library model, inlining or unmodelled call.
func (ex *Exec) callFunction(fr *Frame, st *State, fn *ssa.Function, args, bindings []Val, c *ssa.CallCommon, p token.Pos, forceInline bool) (Val, *State) {
	if m, ok := ex.libModel(fn); ok {
		return m(fr, st, fn, args, p)
	}
	name := fn.String()
	if !forceInline {
		if fc := ex.contractOf(fn); fc != nil && !fc.Inline && !(fn == ex.fn && false) {
			var names []string
			var ptypes []types.Type
			for _, prm := range fn.Params {
				names = append(names, prm.Name())
				ptypes = append(ptypes, prm.Type())
			}
			var rnames []string
			res := fn.Signature.Results()
			for i := 0; i < res.Len(); i++ {
				rnames = append(rnames, res.At(i).Name())
			}
			_, key := funcKey(fn)
			return ex.applyContract(fr, st, fc, names, ptypes, args, res, rnames, key, p)
		}
	}
	if forceInline || ex.shouldInline(fn) || (ex.contractOf(fn) != nil && ex.contractOf(fn).Inline) {
		if ex.depth >= maxInlineDepth {
			ex.cx.unsup("inline depth exceeded at %s", name)
			return ex.unmodelledResult(fn.Signature.Results()), st
		}
		ex.depth++
		sub := ex.newFrame(fn, false)
		// recover() stops a panic only when called directly by a deferred function
		sub.deferredDirectly = ex.nextFrameDeferred
		ex.nextFrameDeferred = false
		nrm, pnc := sub.run(st, args, bindings)
		ex.depth--
		if pnc != nil {
			fr.panics = append(fr.panics, *pnc)
			if !ex.mayPanic() && len(st.defers) == 0 && !fr.inPanicDefers {
				// a panic escaping an inlined callee of a function that must not panic
				// was already reported at its origin (mustHold / explicit panic)
			}
		}
		if nrm == nil {
			dead := st.clone()
			dead.reach = tFalse
			return ex.unmodelledResult(fn.Signature.Results()), dead
		}
		nrm.st.defers = st.defers
		return nrm.val, nrm.st
	}
	return ex.unmodelledCall(fr, st, c, args, name, p), st
}

func (ex *Exec) unmodelledResult(res *types.Tuple) Val {
	switch res.Len() {
	case 0:
		return nil
	case 1:
		return ex.havocVal("ret", res.At(0).Type())
	}
	return ex.havocVal("ret", res)
}

var pureLibPrefixes = []string{"fmt.", "errors.", "time.", "strings.", "strconv.", "math.", "math/bits.", "unicode.", "unicode/utf8.", "runtime.", "sort.", "os.", "path/filepath.", "log.", "(time.", "(*strings.", "bytes.", "sync/atomic.", "(*sync.", "io."}

// unmodelledCall: trusted-base rule T5. The callee returns arbitrary values of
// its result types, may write the backing arrays of slice arguments (and the
// fields reachable through pointer arguments are NOT assumed changed), and
// does not panic unless the function under verification catches panics.
func (ex *Exec) unmodelledCall(fr *Frame, st *State, c *ssa.CallCommon, args []Val, name string, p token.Pos) Val {
	pure := false
	for _, pre := range pureLibPrefixes {
		if strings.HasPrefix(name, pre) {
			pure = true
		}
	}
	if strings.HasPrefix(name, "(*github.com/flanglet/kanzi-go/v2/io.IOError)") || strings.HasPrefix(name, "(github.com/flanglet/kanzi-go/v2/io.IOError)") ||
		strings.HasPrefix(name, "github.com/flanglet/kanzi-go/v2.NewEvent") {
		pure = true
	}
	if pure {
		ex.cx.note("unmodelled pure callee: %s (result unconstrained, no effect on tracked state)", name)
	} else {
		ex.cx.note("unmodelled callee: %s (result unconstrained; may overwrite its slice arguments; assumed not to touch other tracked state)", name)
		var argTypes []types.Type
		if c != nil {
			if c.IsInvoke() {
				argTypes = append(argTypes, c.Value.Type())
			}
			for _, a := range c.Args {
				argTypes = append(argTypes, a.Type())
			}
		}
		for i, a := range args {
			if i >= len(argTypes) {
				break
			}
			if sl, ok := argTypes[i].Underlying().(*types.Slice); ok {
				if es, ok := ex.cx.sortOf(sl.Elem()); ok {
					if sc, ok := a.(Sc); ok {
						nm := contentHeapName(es)
						h := ex.heap(st, nm, ex.contentSort(es))
						fresh := ex.cx.fresh("havoc_arr", arrSort(ex.cx.intS(), es))
						ex.setHeap(st, nm, ex.cx.name("h", store(h, app(SRef, "sarr", sc.T), fresh)))
					}
				}
			}
		}
	}
	if ex.catchesPanics() && ex.inHandler == 0 {
		// any call may panic: add an exceptional edge
		ps := st.clone()
		pv := ex.cx.fresh("panic_in_"+name, SIface)
		ex.cx.assume(not(eq(pv, nilIface())))
		maybe := ex.cx.fresh("panics_"+name, SBool)
		ps.reach = ex.cx.name("r", and(st.reach, maybe))
		fr.panics = append(fr.panics, exitRec{ps, Sc{pv}})
		st.reach = ex.cx.name("r", and(st.reach, not(maybe)))
	}
	var res *types.Tuple
	if c != nil {
		res = c.Signature().Results()
	} else {
		return nil
	}
	rv := ex.unmodelledResult(res)
	// allocation pointer moves on
	ap := ex.varOf(st, "allocptr", SInt)
	nap := ex.cx.fresh("allocptr", SInt)
	ex.cx.assume(app(SBool, ">=", nap, ap))
	st.vars["allocptr"] = nap
	return rv
}

// Calls made by the deferred handlers themselves (error.Error, fmt.Sprint,
// WaitGroup.Done) are assumed not to panic.
func (ex *Exec) catchesPanics() bool {
	return ex.fc != nil && ex.fc.Opts["calls"] == "may-panic"
}

// ---------------------------------------------------------------------
// contract application at a call site

func (ex *Exec) applyContract(fr *Frame, st *State, fc *FuncContract, names []string, ptypes []types.Type, args []Val,
	results *types.Tuple, rnames []string, calleeName string, p token.Pos) (Val, *State) {
	pre := st.clone()
	mkEnv := func(cur, old *State) *SpecEnv {
		env := ex.specEnv(nil, cur, old)
		env.fcOwner = fc
		for i, n := range names {
			if i < len(args) {
				env.vars[n] = SVal{V: args[i], T: ptypes[i]}
			}
		}
		return env
	}
	// preconditions
	ex.callOrd[calleeName]++
	for _, cl := range fc.Requires {
		g, sk := mkEnv(st, st).evalGoalSkolem(cl.Expr)
		ex.instantiateHyps(sk)
		lbl := calleeName
		if cl.Label != "" {
			lbl += "." + cl.Label
		} else {
			lbl += fmt.Sprintf(".L%d", cl.Line)
		}
		ex.oblige("pre", lbl, st, g, p, nil)
	}
	// recursion: the measure decreases
	if fc == ex.fc && fc.Decreases != nil && ex.entryMeasure.S != "" {
		env := mkEnv(st, st)
		m := env.evalInt(fc.Decreases.Expr)
		var g Term
		if ex.cx.mode == "bv" {
			g = and(app(SBool, "bvult", m, ex.entryMeasure))
		} else {
			g = and(app(SBool, "<", m, ex.entryMeasure), app(SBool, "<=", intLit(0), ex.entryMeasure))
		}
		ex.oblige("decreases", "recursion", st, g, p, nil)
	}
	// havoc the modifies set
	post := st.clone()
	if !fc.HasModifies {
		ex.cx.note("contract of %s has no modifies clause: every heap havoced at its call sites", calleeName)
		for n, s := range ex.cx.heapSorts {
			post.heaps[n] = ex.freshHeap("hv_", n, s)
		}
	} else {
		for _, m := range fc.Modifies {
			env := mkEnv(pre, pre)
			env.havocLvalue(post, m)
		}
	}
	ap := ex.varOf(post, "allocptr", SInt)
	nap := ex.cx.fresh("allocptr", SInt)
	ex.cx.assume(app(SBool, ">=", nap, ap))
	post.vars["allocptr"] = nap
	// exceptional exit
	if len(fc.Panics) > 0 {
		ps := post.clone()
		maybe := ex.cx.fresh("panics_"+calleeName, SBool)
		ps.reach = ex.cx.name("r", and(st.reach, maybe))
		for _, cl := range fc.Panics {
			env := mkEnv(ps, pre)
			ex.cx.assume(implies(ps.reach, env.evalBool(cl.Expr)))
		}
		pv := ex.cx.fresh("panic_in_"+calleeName, SIface)
		ex.cx.assume(not(eq(pv, nilIface())))
		if !ex.mayPanic() && len(st.defers) == 0 {
			ex.oblige("nopanic", "call:"+calleeName, ps, tFalse, p, nil)
		} else {
			fr.panics = append(fr.panics, exitRec{ps, Sc{pv}})
		}
		post.reach = ex.cx.name("r", and(st.reach, not(maybe)))
	}
	// results
	var rv Val
	var rvals []SVal
	for i := 0; i < results.Len(); i++ {
		v := ex.havocVal("res_"+calleeName, results.At(i).Type())
		rvals = append(rvals, SVal{V: v, T: results.At(i).Type()})
	}
	switch len(rvals) {
	case 0:
	case 1:
		rv = rvals[0].V
	default:
		a := Agg{}
		for _, r := range rvals {
			a.F = append(a.F, r.V)
		}
		rv = a
	}
	for _, cl := range append(append([]*Clause{}, fc.GhostDefs...), fc.Ensures...) {
		env := mkEnv(post, pre)
		bindResults(env, rvals, rnames)
		nU := len(ex.cx.unsupported)
		nA := len(ex.cx.asserts)
		et := env.evalBool(cl.Expr)
		if len(ex.cx.unsupported) != nU {
			// the clause cannot be expressed in the caller's arithmetic mode
			// (e.g. a bit-vector formula seen from integer mode): not assumed
			ex.cx.unsupported = ex.cx.unsupported[:nU]
			ex.cx.asserts = ex.cx.asserts[:nA]
			ex.cx.note("postcondition of %s not usable in %s mode at a call site of %s: %s", calleeName, ex.cx.mode, ex.cx.fnName, cl.Src)
			continue
		}
		ex.cx.assume(implies(post.reach, et))
		if clauseHasQuant(ex, cl.Expr) {
			cl, postSt := cl, post.clone()
			ex.qhyps = append(ex.qhyps, qhyp{guard: post.reach, inst: func(sk map[string]SVal) (Term, bool) {
				henv := mkEnv(postSt, pre)
				bindResults(henv, rvals, rnames)
				nUnsup := len(ex.cx.unsupported)
				t := henv.evalInstance(cl.Expr, sk)
				if len(ex.cx.unsupported) != nUnsup {
					ex.cx.unsupported = ex.cx.unsupported[:nUnsup]
					return Term{}, false
				}
				return t, true
			}})
		}
	}
	return rv, post
}

func bindResults(env *SpecEnv, rvals []SVal, rnames []string) {
	for i, r := range rvals {
		if i < len(rnames) && rnames[i] != "" && rnames[i] != "_" {
			env.vars[rnames[i]] = r
		}
		env.vars[fmt.Sprintf("result%d", i)] = r
	}
	if len(rvals) == 1 {
		env.vars["result"] = rvals[0]
	}
}

// goStmt: structured fork/join by sequential reduction (trusted rule T3): the
// spawned call is executed under its contract at the spawn point; Wait is a
// no-op. Valid when task footprints are disjoint apart from the protocol
// state whose ordering is established separately (C07 obligations).
func (ex *Exec) goStmt(fr *Frame, st *State, g *ssa.Go) *State {
	ex.cx.note("go statement in %s treated by sequential reduction (T3)", fr.fn.Name())
	_, st2 := ex.call(fr, st, g, &g.Call, g.Pos())
	return st2
}

// ---------------------------------------------------------------------
// builtins

func (ex *Exec) builtin(fr *Frame, st *State, b *ssa.Builtin, c *ssa.CallCommon, args []Val, p token.Pos) Val {
	is := ex.cx.intS()
	switch b.Name() {
	case "len", "cap":
		switch t := c.Args[0].Type().Underlying().(type) {
		case *types.Slice:
			s := args[0].(Sc).T
			if b.Name() == "len" {
				return Sc{app(is, "slen", s)}
			}
			return Sc{app(is, "scap", s)}
		case *types.Basic:
			return Sc{ex.strLen(args[0].(Sc).T)}
		case *types.Array:
			return Sc{ex.ilit(t.Len())}
		case *types.Pointer:
			if at, ok := t.Elem().Underlying().(*types.Array); ok {
				return Sc{ex.ilit(at.Len())}
			}
		case *types.Map:
			v := ex.cx.fresh("maplen", is)
			if ex.cx.mode == "int" {
				ex.cx.assume(app(SBool, "<=", intLit(0), v))
			}
			return Sc{v}
		}
	case "min", "max":
		r := args[0].(Sc).T
		for i, a := range args[1:] {
			y := a.(Sc).T
			var lt Term
			if r.Sort == SInt {
				lt = app(SBool, "<", r, y)
			} else if _, ok := isBV(r.Sort); ok {
				if isUnsigned(c.Args[i].Type()) {
					lt = app(SBool, "bvult", r, y)
				} else {
					lt = app(SBool, "bvslt", r, y)
				}
			} else {
				ex.cx.unsup("min/max on %s", r.Sort)
				return ex.havocVal("minmax", c.Args[0].Type())
			}
			if b.Name() == "min" {
				r = ite(lt, r, y)
			} else {
				r = ite(lt, y, r)
			}
			r = ex.cx.name("mm", r)
		}
		return Sc{r}
	case "copy":
		return ex.copyBuiltin(fr, st, c, args)
	case "append":
		return ex.appendBuiltin(fr, st, c, args)
	case "recover":
		if !fr.deferredDirectly {
			// Go: recover returns nil and has no effect when it is not called
			// directly by the deferred function
			return Sc{nilIface()}
		}
		pv := ex.varOf(st, "panicking", SIface)
		if _, ok := st.vars["panicking"]; !ok {
			pv = nilIface()
		}
		st.vars["panicking"] = nilIface()
		return Sc{pv}
	case "clear":
		// clear(slice): the elements become zero; modelled as an arbitrary content of the backing
		// array (an over-approximation: zero is one of the possible contents). clear(map) is not modelled.
		if len(args) == 1 {
			if sl, ok := c.Args[0].Type().Underlying().(*types.Slice); ok {
				if es, ok := ex.cx.sortOf(sl.Elem()); ok {
					if sc, ok := args[0].(Sc); ok {
						nm := contentHeapName(es)
						h := ex.heap(st, nm, ex.contentSort(es))
						fresh := ex.cx.fresh("havoc_arr", arrSort(ex.cx.intS(), es))
						ex.setHeap(st, nm, ex.cx.name("h", store(h, app(SRef, "sarr", sc.T), fresh)))
						ex.cx.note("builtin clear(slice) is modelled as an arbitrary overwrite of the backing array")
						return nil
					}
				}
			}
		}
		ex.cx.unsup("builtin clear on this operand")
		return nil
	case "print", "println":
		return nil
	case "ssa:wrapnilchk":
		return args[0]
	case "ssa:deferstack":
		return Sc{tNull}
	case "delete":
		ex.cx.unsup("builtin delete")
		return nil
	}
	ex.cx.unsup("builtin %s", b.Name())
	if c.Signature().Results().Len() > 0 {
		return ex.unmodelledResult(c.Signature().Results())
	}
	return nil
}

// copyBuiltin: n = min(len(dst), len(src)); dst[0:n] = src[0:n].
func (ex *Exec) copyBuiltin(fr *Frame, st *State, c *ssa.CallCommon, args []Val) Val {
	is := ex.cx.intS()
	dst := ex.cx.name("dst", args[0].(Sc).T)
	sl, ok := c.Args[0].Type().Underlying().(*types.Slice)
	if !ok {
		ex.cx.unsup("copy into %s", c.Args[0].Type())
		return ex.havocVal("copyn", types.Typ[types.Int])
	}
	es, ok := ex.cx.sortOf(sl.Elem())
	if !ok {
		ex.cx.unsup("copy of aggregate elements")
		return ex.havocVal("copyn", types.Typ[types.Int])
	}
	dl := app(is, "slen", dst)
	var sl2 Term
	var srcArr, srcOff Term
	fromString := false
	if _, isStr := c.Args[1].Type().Underlying().(*types.Basic); isStr {
		fromString = true
		sl2 = ex.strLen(args[1].(Sc).T)
	} else {
		src := ex.cx.name("src", args[1].(Sc).T)
		sl2 = app(is, "slen", src)
		srcArr, srcOff = app(SRef, "sarr", src), app(is, "soff", src)
	}
	n := ex.cx.name("copyn", ite(ex.ilt(dl, sl2), dl, sl2))
	name := contentHeapName(es)
	h := ex.heap(st, name, ex.contentSort(es))
	dArr, dOff := app(SRef, "sarr", dst), app(is, "soff", dst)
	oldD := sel(h, dArr)
	newD := ex.cx.fresh("copied", arrSort(is, es))
	iv := "i!c"
	i := Term{iv, is}
	inr := and(ex.ile(dOff, i), ex.ilt(i, ex.iadd(dOff, n)))
	var srcElem Term
	if !fromString {
		srcElem = sel(sel(h, srcArr), ex.iadd(srcOff, ex.isub(i, dOff)))
	}
	if fromString {
		ex.cx.assume(Term{fmt.Sprintf("(forall ((%s %s)) (! (=> (not %s) (= (select %s %s) (select %s %s))) :pattern ((select %s %s))))",
			iv, is, inr.S, newD.S, iv, oldD.S, iv, newD.S, iv), SBool})
	} else {
		ex.cx.assume(Term{fmt.Sprintf("(forall ((%s %s)) (! (= (select %s %s) (ite %s %s (select %s %s))) :pattern ((select %s %s))))",
			iv, is, newD.S, iv, inr.S, srcElem.S, oldD.S, iv, newD.S, iv), SBool})
	}
	ex.setHeap(st, name, ex.cx.name("h", store(h, dArr, newD)))
	return Sc{n}
}

func (ex *Exec) appendBuiltin(fr *Frame, st *State, c *ssa.CallCommon, args []Val) Val {
	// result: a slice with len = len(a)+len(b); contents: prefix preserved.
	is := ex.cx.intS()
	a := ex.cx.name("app_a", args[0].(Sc).T)
	sl := c.Args[0].Type().Underlying().(*types.Slice)
	es, ok := ex.cx.sortOf(sl.Elem())
	var bl Term
	if _, isStr := c.Args[1].Type().Underlying().(*types.Basic); isStr {
		bl = ex.strLen(args[1].(Sc).T)
	} else {
		bl = app(is, "slen", args[1].(Sc).T)
	}
	res := ex.cx.fresh("appended", SSlice)
	ex.cx.assume(ex.sliceWF(res))
	nl := ex.iadd(app(is, "slen", a), bl)
	ex.cx.assume(eq(app(is, "slen", res), nl))
	ex.cx.note("append modelled abstractly: length exact, prefix contents preserved, appended contents from source, backing array may be fresh")
	if ok {
		// contents
		name := contentHeapName(es)
		h := ex.heap(st, name, ex.contentSort(es))
		ref := ex.newObj(st)
		// either in place (same array, enough capacity) or a fresh array
		inplace := ex.ile(nl, app(is, "scap", a))
		ex.cx.assume(ite(inplace,
			and(eq(app(SRef, "sarr", res), app(SRef, "sarr", a)), eq(app(is, "soff", res), app(is, "soff", a))),
			and(eq(app(SRef, "sarr", res), ref), eq(app(is, "soff", res), ex.izero()))))
		newC := ex.cx.fresh("appc", arrSort(is, es))
		iv := "i!a"
		i := Term{iv, is}
		ro := app(is, "soff", res)
		inA := and(ex.ile(ro, i), ex.ilt(i, ex.iadd(ro, app(is, "slen", a))))
		oldA := sel(sel(h, app(SRef, "sarr", a)), ex.iadd(app(is, "soff", a), ex.isub(i, ro)))
		ex.cx.assume(Term{fmt.Sprintf("(forall ((%s %s)) (! (=> %s (= (select %s %s) %s)) :pattern ((select %s %s))))", iv, is, inA.S, newC.S, iv, oldA.S, newC.S, iv), SBool})
		if _, isStr := c.Args[1].Type().Underlying().(*types.Basic); !isStr {
			b := args[1].(Sc).T
			inB := and(ex.ile(ex.iadd(ro, app(is, "slen", a)), i), ex.ilt(i, ex.iadd(ro, nl)))
			oldB := sel(sel(h, app(SRef, "sarr", b)), ex.iadd(app(is, "soff", b), ex.isub(i, ex.iadd(ro, app(is, "slen", a)))))
			ex.cx.assume(Term{fmt.Sprintf("(forall ((%s %s)) (! (=> %s (= (select %s %s) %s)) :pattern ((select %s %s))))", iv, is, inB.S, newC.S, iv, oldB.S, newC.S, iv), SBool})
		}
		// in place: elements outside [off, off+nl) unchanged
		outside := not(and(ex.ile(ro, i), ex.ilt(i, ex.iadd(ro, nl))))
		ex.cx.assume(implies(inplace, Term{fmt.Sprintf("(forall ((%s %s)) (! (=> %s (= (select %s %s) (select %s %s))) :pattern ((select %s %s))))", iv, is, outside.S, newC.S, iv, sel(h, app(SRef, "sarr", a)).S, iv, newC.S, iv), SBool}))
		ex.setHeap(st, name, ex.cx.name("h", store(h, app(SRef, "sarr", res), newC)))
	} else {
		ex.cx.assume(not(eq(app(SRef, "sarr", res), tNull)))
	}
	return Sc{res}
}

func containsQuant(e Expr) bool {
	switch x := e.(type) {
	case *EQuant:
		return true
	case *EBin:
		return containsQuant(x.L) || containsQuant(x.R)
	case *EUn:
		return containsQuant(x.X)
	case *ECond:
		return containsQuant(x.C) || containsQuant(x.A) || containsQuant(x.B)
	case *EOld:
		return containsQuant(x.X)
	}
	return false
}

// atCallClauses: call-site assertions of the function under verification.
// `atcall <callee> <expr>`: at every call (in the function's own body, also in
// its deferred calls) of a function whose name contains <callee>, <expr> must
// hold; the locals of the function and arg0..argN (the call's arguments, the
// receiver first for interface calls) are in scope.
func (ex *Exec) atCallClauses(fr *Frame, st *State, c *ssa.CallCommon, args []Val, p token.Pos) {
	if ex.fc == nil || len(ex.fc.AtCall) == 0 || !fr.isTop {
		return
	}
	name := ""
	var ptypes []types.Type
	if c.IsInvoke() {
		name = ifaceMethodName(c)
		ptypes = append(ptypes, c.Value.Type())
		sig := c.Method.Type().(*types.Signature)
		for i := 0; i < sig.Params().Len(); i++ {
			ptypes = append(ptypes, sig.Params().At(i).Type())
		}
	} else if f, ok := c.Value.(*ssa.Function); ok {
		name = f.String()
		for _, prm := range f.Params {
			ptypes = append(ptypes, prm.Type())
		}
	} else {
		return
	}
	for _, cl := range ex.fc.AtCall {
		if !strings.Contains(name, cl.Target) {
			continue
		}
		env := ex.specEnv(fr, st, ex.entry)
		for i, a := range args {
			if i < len(ptypes) {
				env.vars[fmt.Sprintf("arg%d", i)] = SVal{V: a, T: ptypes[i]}
			}
		}
		nUnsup := len(ex.cx.unsupported)
		g, sk := env.evalGoalSkolem(cl.Expr)
		label := cl.Label
		if label == "" {
			label = fmt.Sprintf("L%d", cl.Line)
		}
		if len(ex.cx.unsupported) != nUnsup {
			// the clause could not be evaluated here (a local not in scope): the obligation fails
			ex.cx.unsupported = ex.cx.unsupported[:nUnsup]
			g = tFalse
		}
		ex.instantiateHyps(sk)
		if g.S == "true" {
			// keep the obligation visible (baseline, evidence) even when it folds to true
			g = Term{"(= 0 0)", SBool}
		}
		ex.oblige("atcall", label, st, g, p, cl.Props)
	}
}

func calleeName(c *ssa.CallCommon) string {
	if c.IsInvoke() {
		return ifaceMethodName(c)
	}
	if f, ok := c.Value.(*ssa.Function); ok {
		return f.String()
	}
	return ""
}

// afterCallClauses updates the history variables (ghost locals) of the
// function under verification after a call returned normally.
func (ex *Exec) afterCallClauses(fr *Frame, st *State, c *ssa.CallCommon, ret Val) {
	name := calleeName(c)
	if name == "" {
		return
	}
	for _, cl := range ex.fc.AfterCall {
		if !strings.Contains(name, cl.Target) {
			continue
		}
		env := ex.specEnv(fr, st, ex.entry)
		res := c.Signature().Results()
		switch {
		case res.Len() == 1 && ret != nil:
			env.vars["result0"] = SVal{V: ret, T: res.At(0).Type()}
			env.vars["result"] = SVal{V: ret, T: res.At(0).Type()}
		case res.Len() > 1:
			if a, ok := ret.(Agg); ok {
				for i := 0; i < res.Len() && i < len(a.F); i++ {
					env.vars[fmt.Sprintf("result%d", i)] = SVal{V: a.F[i], T: res.At(i).Type()}
				}
			}
		}
		for i, a := range c.Args {
			k := i
			if c.IsInvoke() {
				k = i + 1
			}
			env.vars[fmt.Sprintf("arg%d", k)] = SVal{V: fr.val(a), T: a.Type()}
		}
		v := env.eval(cl.Expr)
		if v.Lit != nil {
			st.vars["gl!"+cl.Label] = bigLit(v.Lit)
			continue
		}
		sc, ok := v.V.(Sc)
		if !ok {
			ex.cx.unsup("aftercall %s: value is not a scalar", cl.Label)
			continue
		}
		st.vars["gl!"+cl.Label] = ex.cx.name("gl", sc.T)
	}
}
