package main

import (
	"encoding/json"
	"path/filepath"
	"os"
	"fmt"
	"go/types"
	"strings"

	"golang.org/x/tools/go/ssa"
)

type FuncResult struct {
	Name        string
	Key         string
	Pkg         string
	Mode        string
	Props       []string
	Obls        []*Obligation
	Unsupported []string
	Notes       []string
	cx          *Ctx
	BodyHash    string
	File        string
}

func shortPkg(p string) string {
	p = strings.TrimPrefix(p, modPath)
	p = strings.TrimPrefix(p, "/")
	if p == "" {
		return "kanzi"
	}
	return p
}

func fnDisplayName(pkg, key string) string {
	k := key
	if strings.HasPrefix(k, "(") {
		i := strings.Index(k, ")")
		recv := strings.TrimPrefix(k[1:i], "*")
		k = recv + k[i+1:]
	}
	return shortPkg(pkg) + "." + k
}

// generate builds all obligations of one function under contract.
func generate(ld *Loaded, cs *Contracts, fc *FuncContract) (res *FuncResult) {
	fn := ld.findFunc(fc.Pkg, fc.Key)
	name := fnDisplayName(fc.Pkg, fc.Key)
	res = &FuncResult{Name: name, Key: fc.Key, Pkg: fc.Pkg, Mode: fc.Mode, Props: fc.Props}
	cx := newCtx(fc.Mode, name)
	if fc.Opts["strings"] == "smt" {
		cx.strMode = true
	}
	res.cx = cx
	ex := &Exec{cx: cx, ld: ld, cs: cs, fieldOwner: ld.fieldOwner, fc: fc, fn: fn, paramEntry: map[string]SVal{},
		nilChecked: map[string]bool{}, callOrd: map[string]int{}, kindOrd: map[string]int{}, edgeFrom: map[*State]*ssa.BasicBlock{}, heapElemType: map[string]types.Type{}}
	if fn == nil {
		cx.unsup("function not found")
		res.Unsupported = cx.unsupported
		return res
	}
	res.File = ld.fset.Position(fn.Pos()).Filename
	defer func() {
		if r := recover(); r != nil {
			cx.unsup("generator panic: %v", r)
			res.Unsupported = cx.unsupported
			res.Obls = nil
			if debugPanics {
				panic(r)
			}
		}
	}()
	if fc.Opts["rg-counter"] != "" {
		ex.rg = newRG(ex, fc)
	}
	st := &State{reach: tTrue, locals: map[*ssa.Alloc]Val{}, heaps: map[string]Term{}, vars: map[string]Term{}}
	ap0 := ex.varOf(st, "allocptr", SInt)
	var args []Val
	for i, p := range fn.Params {
		v := ex.havocVal("p_"+p.Name(), p.Type())
		args = append(args, v)
		ex.paramEntry[p.Name()] = SVal{V: v, T: p.Type()}
		if sc, ok := v.(Sc); ok {
			ex.assumeOld(st, sc.T, tTrue)
			if i == 0 && fn.Signature.Recv() != nil && sc.T.Sort == SRef {
				cx.assume(not(eq(sc.T, tNull)))
				cx.note("receiver of %s assumed non-nil", name)
			}
		}
	}
	_ = ap0
	top := ex.newFrame(fn, true)
	if ex.rg != nil {
		for i, p := range fn.Params {
			top.regs[p] = args[i]
		}
		ex.rg.init(top, st)
	}
	for _, gl := range fc.GhostLocals {
		env := ex.specEnv(top, st, st)
		v := env.eval(gl.Init)
		if v.Lit != nil {
			st.vars["gl!"+gl.Name] = bigLit(v.Lit)
		} else if sc, ok := v.V.(Sc); ok {
			st.vars["gl!"+gl.Name] = sc.T
		} else {
			cx.unsup("ghostlocal %s: initial value is not a scalar", gl.Name)
		}
	}
	ex.entry = st.clone()
	// preconditions
	for _, cl := range fc.Requires {
		env := ex.specEnv(top, st, ex.entry)
		cx.assume(env.evalBool(cl.Expr))
		if clauseHasQuant(ex, cl.Expr) {
			cl := cl
			ex.qhyps = append(ex.qhyps, qhyp{guard: tTrue, inst: func(sk map[string]SVal) (Term, bool) {
				henv := ex.specEnv(nil, ex.entry, ex.entry)
				for n, v := range ex.paramEntry {
					henv.vars[n] = v
				}
				nUnsup := len(ex.cx.unsupported)
				t := henv.evalInstance(cl.Expr, sk)
				if len(ex.cx.unsupported) != nUnsup {
					ex.cx.unsupported = ex.cx.unsupported[:nUnsup]
					return Term{}, false
				}
				return t, true
			}})
		}
	}
	for _, cl := range fc.Assumes {
		env := ex.specEnv(top, st, ex.entry)
		cx.assume(env.evalBool(cl.Expr))
		cx.note("assumed without proof in %s: %s", name, cl.Src)
		if clauseHasQuant(ex, cl.Expr) {
			cl := cl
			ex.qhyps = append(ex.qhyps, qhyp{guard: tTrue, inst: func(sk map[string]SVal) (Term, bool) {
				henv := ex.specEnv(nil, ex.entry, ex.entry)
				for n, v := range ex.paramEntry {
					henv.vars[n] = v
				}
				nUnsup := len(ex.cx.unsupported)
				t := henv.evalInstance(cl.Expr, sk)
				if len(ex.cx.unsupported) != nUnsup {
					ex.cx.unsupported = ex.cx.unsupported[:nUnsup]
					return Term{}, false
				}
				return t, true
			}})
		}
	}
	if fc.Decreases != nil {
		env := ex.specEnv(top, st, ex.entry)
		ex.entryMeasure = cx.name("measure", env.evalInt(fc.Decreases.Expr))
	}
	// vacuity: the preconditions are satisfiable
	vo := cx.oblige("vacuity", "requires-sat", tTrue, tTrue, ex.pos(fn.Pos()), nil)
	vo.Name = name + "#vacuity:requires-sat"
	vo.ExpectSat = true
	nrm, pnc := top.run(st, args, nil)
	// normal exit
	if nrm != nil {
		var rvals []SVal
		results := fn.Signature.Results()
		switch results.Len() {
		case 0:
		case 1:
			rvals = append(rvals, SVal{V: nrm.val, T: results.At(0).Type()})
		default:
			a, _ := nrm.val.(Agg)
			for i := 0; i < results.Len() && i < len(a.F); i++ {
				rvals = append(rvals, SVal{V: a.F[i], T: results.At(i).Type()})
			}
		}
		var rnames []string
		for i := 0; i < results.Len(); i++ {
			rnames = append(rnames, results.At(i).Name())
		}
		if ex.rg != nil {
			ex.rg.exit(nrm.st, fn.Pos())
		}
		// reachability canary for the normal exit
		co := cx.oblige("vacuity", "exit-reachable", nrm.st.reach, tTrue, ex.pos(fn.Pos()), nil)
		co.Name = name + "#vacuity:exit-reachable"
		co.ExpectSat = true
		for _, cl := range fc.GhostDefs {
			env := ex.specEnv(nil, nrm.st, ex.entry)
			for n, v := range ex.paramEntry {
				env.vars[n] = v
			}
			bindResults(env, rvals, rnames)
			cx.assume(implies(nrm.st.reach, env.evalBool(cl.Expr)))
			cx.note("ghost definition (not a proof obligation) in %s: %s", name, cl.Src)
		}
		for _, cl := range fc.Ensures {
			env := ex.specEnv(nil, nrm.st, ex.entry)
			for n, v := range ex.paramEntry {
				env.vars[n] = v
			}
			bindResults(env, rvals, rnames)
			g, sk := env.evalGoalSkolem(cl.Expr)
			ex.instantiateHyps(sk)
			label := cl.Label
			if label == "" {
				label = fmt.Sprintf("L%d", cl.Line)
			}
			ex.obligeNoAssume("post", label, nrm.st, g, fn.Pos(), cl.Props)
			{
				cl := cl
				ex.assumeUniversal(nrm.st, sk, func() *SpecEnv {
					e2 := ex.specEnv(nil, nrm.st, ex.entry)
					for n, v := range ex.paramEntry {
						e2.vars[n] = v
					}
					bindResults(e2, rvals, rnames)
					return e2
				}, cl.Expr)
			}
		}
		if fc.HasModifies {
			ex.frameCheck(nrm.st, "frame", fn)
		}
	}
	if pnc != nil {
		if len(fc.Panics) > 0 {
			for _, cl := range fc.Panics {
				env := ex.specEnv(nil, pnc.st, ex.entry)
				for n, v := range ex.paramEntry {
					env.vars[n] = v
				}
				g := env.evalBool(cl.Expr)
				label := cl.Label
				if label == "" {
					label = fmt.Sprintf("L%d", cl.Line)
				}
				ex.obligeNoAssume("panics", label, pnc.st, g, fn.Pos(), cl.Props)
			}
			if fc.HasModifies {
				ex.frameCheck(pnc.st, "frame-on-panic", fn)
			}
		} else if ex.mayPanic() {
			// every panic must have been caught by the function's deferred recover
			ex.obligeNoAssume("nopanic", "escapes", pnc.st, tFalse, fn.Pos(), nil)
		}
	}
	res.Obls = cx.obls
	res.Unsupported = cx.unsupported
	for n := range cx.notes {
		res.Notes = append(res.Notes, n)
	}
	return res
}

var debugPanics = false

func (ex *Exec) obligeNoAssume(kind, label string, st *State, goal Term, p interface{ IsValid() bool }, props []string) {
	o := ex.cx.oblige(kind, label, st.reach, goal, ex.pos(ex.fn.Pos()), props)
	key := kind + ":" + label
	ex.kindOrd[key]++
	o.Name = fmt.Sprintf("%s#%s:%s", ex.cx.fnName, kind, label)
	if n := ex.kindOrd[key]; n > 1 {
		o.Name += fmt.Sprintf("@%d", n)
	}
	// later obligations may use this one (proved in sequence)
	if kind != "frame" && kind != "frame-on-panic" {
		ex.cx.assume(implies(st.reach, goal))
	}
}

// frameCheck: every heap location not named by the modifies clause (and not
// allocated by the function itself) is unchanged.
func (ex *Exec) frameCheck(fin *State, kind string, fn *ssa.Function) {
	cx := ex.cx
	fc := ex.fc
	// allowed refs per heap
	allowed := map[string][]Term{}
	wholeHeap := map[string]bool{}
	elemBases := map[string][]Term{}
	env := ex.specEnv(nil, ex.entry, ex.entry)
	for n, v := range ex.paramEntry {
		env.vars[n] = v
	}
	for _, m := range fc.Modifies {
		ex.lvalueTargets(env, m, allowed, elemBases, wholeHeap)
	}
	ap0 := ex.varOf(ex.entry, "allocptr", SInt)
	for _, name := range sortedKeys(fin.heaps) {
		ft := fin.heaps[name]
		et := ex.heap(ex.entry, name, ft.Sort)
		if ft.S == et.S || wholeHeap[name] {
			continue
		}
		if newFieldHeap(name) {
			// a struct field that did not exist in the reference tree: no contract speaks about it,
			// a write to it is outside every frame (if a decision read it, other obligations would show it)
			cx.note("field %s does not exist in the reference tree: not part of any frame", strings.TrimPrefix(name, "F!"))
			continue
		}
		if strings.HasPrefix(name, "MH!") || strings.HasPrefix(name, "MV!") || strings.HasPrefix(name, "G!") || true {
			r := Term{"r!f", SRef}
			var conds []Term
			for _, a := range allowed[name] {
				conds = append(conds, not(eq(r, a)))
			}
			for _, b := range elemBases[name] {
				conds = append(conds, not(elemMatch(r, b)))
			}
			// objects allocated during the call may differ
			conds = append(conds, ex.refOldStrict(r, ap0))
			goal := Term{fmt.Sprintf("(forall ((r!f Ref)) (=> %s (= (select %s r!f) (select %s r!f))))", and(conds...).S, ft.S, et.S), SBool}
			ex.obligeNoAssume(kind, name, fin, goal, nil, nil)
		}
	}
	_ = cx
}

// lvalueTargets collects, per heap, the references a modifies item allows to change.
func (ex *Exec) lvalueTargets(env *SpecEnv, m Expr, allowed, elemBases map[string][]Term, whole map[string]bool) {
	addField := func(ref Term, f *types.Var) {
		var rec func(ref Term, f *types.Var)
		rec = func(ref Term, f *types.Var) {
			if _, ok := ex.cx.sortOf(f.Type()); ok {
				n := ex.fieldHeapName(f)
				allowed[n] = append(allowed[n], ref)
				return
			}
			sub := app(SRef, "fld", ref, intLit(int64(ex.cx.fieldID(f))))
			switch u := f.Type().Underlying().(type) {
			case *types.Struct:
				for i := 0; i < u.NumFields(); i++ {
					rec(sub, u.Field(i))
				}
			case *types.Array:
				if es, ok := ex.cx.sortOf(u.Elem()); ok {
					n := contentHeapName(es)
					allowed[n] = append(allowed[n], sub)
				}
			}
		}
		rec(ref, f)
	}
	addArray := func(base Term, et types.Type) {
		if es, ok := ex.cx.sortOf(et); ok {
			n := contentHeapName(es)
			allowed[n] = append(allowed[n], base)
			return
		}
		if stt, ok := et.Underlying().(*types.Struct); ok {
			ex.leafFields(stt, 0, func(f *types.Var, depth int) {
				n := ex.fieldHeapName(f)
				elemBases[n] = append(elemBases[n], Term{base.S, fmt.Sprintf("Ref#%d", depth)})
			})
		}
	}
	switch x := m.(type) {
	case *EStr:
		whole[x.Val] = true
	case *ESel:
		base := env.eval(x.X)
		ref, ok := env.objRef(base)
		if !ok {
			return
		}
		if base.T != nil {
			if pt, ok := base.T.Underlying().(*types.Pointer); ok {
				if stt, ok := pt.Elem().Underlying().(*types.Struct); ok {
					for i := 0; i < stt.NumFields(); i++ {
						if stt.Field(i).Name() == x.Name || x.Name == "all" {
							addField(ref, stt.Field(i))
						}
					}
					return
				}
			}
		}
		if g, ok := ex.cs.Ghosts[x.Name]; ok {
			allowed["G!"+g.Name] = append(allowed["G!"+g.Name], ref)
			allowed["G!"+g.Name+"#len"] = append(allowed["G!"+g.Name+"#len"], ref)
		}
	case *EIndex:
		v := env.eval(x.X)
		if ga, ok := v.V.(ghostArr); ok {
			allowed["G!"+ga.Name] = append(allowed["G!"+ga.Name], ga.Ref)
			allowed["G!"+ga.Name+"#len"] = append(allowed["G!"+ga.Name+"#len"], ga.Ref)
			return
		}
		if v.T == nil {
			return
		}
		switch t := v.T.Underlying().(type) {
		case *types.Slice:
			addArray(app(SRef, "sarr", v.V.(Sc).T), t.Elem())
		case *types.Pointer:
			if at, ok := t.Elem().Underlying().(*types.Array); ok {
				if ref, ok := ex.materialize(v.V); ok {
					addArray(ref, at.Elem())
				}
			}
		case *types.Map:
			hn, vn, _, _, ok := ex.mapHeaps(v.T)
			if ok {
				allowed[hn] = append(allowed[hn], v.V.(Sc).T)
				allowed[vn] = append(allowed[vn], v.V.(Sc).T)
			}
		}
	case *EUn:
		if x.Op == "*" {
			v := env.eval(x.X)
			if v.T != nil {
				if pt, ok := v.T.Underlying().(*types.Pointer); ok {
					if s, ok := ex.cx.sortOf(pt.Elem()); ok {
						if sc, ok := v.V.(Sc); ok {
							if fa, ok := ex.asFieldAddr(sc.T); ok {
								n := ex.fieldHeapName(fa.Fld)
								allowed[n] = append(allowed[n], fa.Obj)
							} else {
								n := cellHeapName(s)
								allowed[n] = append(allowed[n], sc.T)
							}
						}
					}
				}
			}
		}
	}
}

// leafFields enumerates the scalar fields of a struct type, descending into
// nested structs (depth = number of enclosing struct fields).
func (ex *Exec) leafFields(stt *types.Struct, depth int, f func(fld *types.Var, depth int)) {
	for i := 0; i < stt.NumFields(); i++ {
		fl := stt.Field(i)
		if sub, ok := fl.Type().Underlying().(*types.Struct); ok {
			ex.leafFields(sub, depth+1, f)
			continue
		}
		if _, ok := ex.cx.sortOf(fl.Type()); ok {
			f(fl, depth)
		}
	}
}

// elemMatch: r is the address of a (possibly nested) field cell of an element
// of the array object b (b.Sort carries the nesting depth as "Ref#d").
func elemMatch(r, b Term) Term {
	depth := 0
	if strings.HasPrefix(b.Sort, "Ref#") {
		fmt.Sscanf(b.Sort, "Ref#%d", &depth)
	}
	var cs []Term
	cur := r
	for d := 0; d < depth; d++ {
		cs = append(cs, app(SBool, "(_ is fld)", cur))
		cur = app(SRef, "fbase", cur)
	}
	cs = append(cs, app(SBool, "(_ is elem)", cur), eq(app(SRef, "ebase", cur), Term{b.S, SRef}))
	return and(cs...)
}

// clauseHasQuant: the clause contains a quantifier, directly or through a
// spec function it calls.
func clauseHasQuant(ex *Exec, e Expr) bool {
	seen := map[string]bool{}
	var rec func(e Expr) bool
	rec = func(e Expr) bool {
		switch x := e.(type) {
		case *EQuant:
			return true
		case *EBin:
			return rec(x.L) || rec(x.R)
		case *EUn:
			return rec(x.X)
		case *ECond:
			return rec(x.C) || rec(x.A) || rec(x.B)
		case *EOld:
			return rec(x.X)
		case *ECall:
			name := ""
			switch f := x.Fn.(type) {
			case *EIdent:
				name = f.Name
			case *ESel:
				name = f.Name
			}
			if sf, ok := ex.cs.Specs[name]; ok && !seen[name] {
				seen[name] = true
				if rec(sf.Body) {
					return true
				}
			}
			for _, a := range x.Args {
				if rec(a) {
					return true
				}
			}
		}
		return false
	}
	return rec(e)
}

var baselineFields map[string]bool
var baselineFieldsLoaded bool

// newFieldHeap: name is the heap of a struct field that the reference tree does not have.
func newFieldHeap(name string) bool {
	if !strings.HasPrefix(name, "F!") {
		return false
	}
	if !baselineFieldsLoaded {
		baselineFieldsLoaded = true
		if b, err := os.ReadFile(filepath.Join(verifDir(), "baseline", "fields.json")); err == nil {
			var l []string
			if json.Unmarshal(b, &l) == nil {
				baselineFields = map[string]bool{}
				for _, f := range l {
					baselineFields[f] = true
				}
			}
		}
	}
	if baselineFields == nil {
		return false
	}
	// only fields of the module's own structs are listed
	if !strings.HasPrefix(name, "F!io.") && !strings.HasPrefix(name, "F!bitstream.") && !strings.HasPrefix(name, "F!entropy.") && !strings.HasPrefix(name, "F!transform.") && !strings.HasPrefix(name, "F!hash.") && !strings.HasPrefix(name, "F!internal.") && !strings.HasPrefix(name, "F!kanzi.") && !strings.HasPrefix(name, "F!main.") {
		return false
	}
	return !baselineFields[name]
}
