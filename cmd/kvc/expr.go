package main

import (
	"fmt"
	"strings"
)

// Spec expression AST.
type Expr interface{}

type (
	EIdent  struct{ Name string }
	ENum    struct{ Val string } // decimal or 0x
	EStr    struct{ Val string }
	EBin    struct{ Op string; L, R Expr }
	EUn     struct{ Op string; X Expr }
	ESel    struct{ X Expr; Name string }
	EIndex  struct{ X, I Expr }
	ESlice  struct{ X, Lo, Hi Expr }
	ECall   struct{ Fn Expr; Args []Expr }
	EOld    struct{ X Expr }
	EQuant  struct{ All bool; Vars []string; Types []string; Body Expr }
	EStar   struct{} // the [*] index
	ECond   struct{ C, A, B Expr } // c ? a : b
)

type lexer struct {
	s   string
	pos int
	tok string
	kind byte // 'i' ident, 'n' number, 's' string, 'o' operator, 0 eof
}

func (l *lexer) next() {
	for l.pos < len(l.s) && (l.s[l.pos] == ' ' || l.s[l.pos] == '\t') {
		l.pos++
	}
	if l.pos >= len(l.s) {
		l.kind, l.tok = 0, ""
		return
	}
	c := l.s[l.pos]
	start := l.pos
	switch {
	case c == '_' || (c >= 'a' && c <= 'z') || (c >= 'A' && c <= 'Z'):
		for l.pos < len(l.s) {
			c := l.s[l.pos]
			if c == '_' || (c >= 'a' && c <= 'z') || (c >= 'A' && c <= 'Z') || (c >= '0' && c <= '9') {
				l.pos++
			} else {
				break
			}
		}
		l.kind, l.tok = 'i', l.s[start:l.pos]
	case c >= '0' && c <= '9':
		for l.pos < len(l.s) {
			c := l.s[l.pos]
			if (c >= '0' && c <= '9') || (c >= 'a' && c <= 'f') || (c >= 'A' && c <= 'F') || c == 'x' || c == 'X' || c == '_' {
				l.pos++
			} else {
				break
			}
		}
		l.kind, l.tok = 'n', strings.ReplaceAll(l.s[start:l.pos], "_", "")
	case c == '"':
		l.pos++
		for l.pos < len(l.s) && l.s[l.pos] != '"' {
			l.pos++
		}
		l.pos++
		l.kind, l.tok = 's', l.s[start+1:l.pos-1]
	default:
		for _, op := range []string{"<==>", "==>", "<<", ">>", "<=", ">=", "==", "!=", "&&", "||", "::", "&^"} {
			if strings.HasPrefix(l.s[l.pos:], op) {
				l.pos += len(op)
				l.kind, l.tok = 'o', op
				return
			}
		}
		l.pos++
		l.kind, l.tok = 'o', string(c)
	}
}

type parser struct{ l lexer }

func parseExpr(s string) (e Expr, err error) {
	defer func() {
		if r := recover(); r != nil {
			err = fmt.Errorf("%v", r)
		}
	}()
	p := &parser{l: lexer{s: s}}
	p.l.next()
	e = p.quant()
	if p.l.kind != 0 {
		panic(fmt.Sprintf("unexpected %q at %d", p.l.tok, p.l.pos))
	}
	return e, nil
}

func (p *parser) expect(t string) {
	if p.l.tok != t {
		panic(fmt.Sprintf("expected %q, got %q at %d", t, p.l.tok, p.l.pos))
	}
	p.l.next()
}

func (p *parser) quant() Expr {
	if p.l.kind == 'i' && (p.l.tok == "forall" || p.l.tok == "exists") {
		all := p.l.tok == "forall"
		p.l.next()
		q := &EQuant{All: all}
		for {
			if p.l.kind != 'i' {
				panic("quantifier variable expected")
			}
			q.Vars = append(q.Vars, p.l.tok)
			p.l.next()
			typ := "int"
			if p.l.kind == 'i' {
				typ = p.l.tok
				p.l.next()
			}
			q.Types = append(q.Types, typ)
			if p.l.tok == "," {
				p.l.next()
				continue
			}
			break
		}
		p.expect("::")
		q.Body = p.quant()
		return q
	}
	return p.iff()
}

func (p *parser) iff() Expr {
	l := p.impl()
	for p.l.tok == "<==>" {
		p.l.next()
		r := p.impl()
		l = &EBin{"<==>", l, r}
	}
	return l
}

func (p *parser) impl() Expr {
	l := p.cond()
	if p.l.tok == "==>" {
		p.l.next()
		var r Expr
		if p.l.kind == 'i' && (p.l.tok == "forall" || p.l.tok == "exists") {
			r = p.quant()
		} else {
			r = p.impl()
		}
		return &EBin{"==>", l, r}
	}
	return l
}

func (p *parser) cond() Expr {
	c := p.or()
	if p.l.tok == "?" {
		p.l.next()
		a := p.cond()
		p.expect(":")
		b := p.cond()
		return &ECond{c, a, b}
	}
	return c
}

func (p *parser) or() Expr {
	l := p.and()
	for p.l.tok == "||" {
		p.l.next()
		l = &EBin{"||", l, p.and()}
	}
	return l
}

func (p *parser) and() Expr {
	l := p.cmp()
	for p.l.tok == "&&" {
		p.l.next()
		var r Expr
		if p.l.kind == 'i' && (p.l.tok == "forall" || p.l.tok == "exists") {
			r = p.quant()
		} else {
			r = p.cmp()
		}
		l = &EBin{"&&", l, r}
	}
	return l
}

func (p *parser) cmp() Expr {
	l := p.add()
	switch p.l.tok {
	case "==", "!=", "<", "<=", ">", ">=":
		op := p.l.tok
		p.l.next()
		r := p.add()
		e := Expr(&EBin{op, l, r})
		// chained comparisons a <= b < c
		for p.l.tok == "<" || p.l.tok == "<=" {
			op2 := p.l.tok
			p.l.next()
			r2 := p.add()
			e = &EBin{"&&", e, &EBin{op2, r, r2}}
			r = r2
		}
		return e
	}
	return l
}

func (p *parser) add() Expr {
	l := p.mul()
	for p.l.tok == "+" || p.l.tok == "-" || p.l.tok == "|" || p.l.tok == "^" {
		op := p.l.tok
		p.l.next()
		l = &EBin{op, l, p.mul()}
	}
	return l
}

func (p *parser) mul() Expr {
	l := p.unary()
	for p.l.tok == "*" || p.l.tok == "/" || p.l.tok == "%" || p.l.tok == "<<" || p.l.tok == ">>" || p.l.tok == "&" || p.l.tok == "&^" {
		op := p.l.tok
		p.l.next()
		l = &EBin{op, l, p.unary()}
	}
	return l
}

func (p *parser) unary() Expr {
	switch p.l.tok {
	case "!", "-", "^", "*":
		if p.l.kind == 'o' {
			op := p.l.tok
			p.l.next()
			return &EUn{op, p.unary()}
		}
	}
	return p.postfix()
}

func (p *parser) postfix() Expr {
	e := p.primary()
	for {
		switch p.l.tok {
		case ".":
			p.l.next()
			if p.l.kind != 'i' {
				panic("field name expected")
			}
			e = &ESel{e, p.l.tok}
			p.l.next()
		case "[":
			p.l.next()
			if p.l.tok == "*" {
				p.l.next()
				p.expect("]")
				e = &EIndex{e, &EStar{}}
				continue
			}
			var lo, hi Expr
			if p.l.tok != ":" {
				lo = p.quant()
			}
			if p.l.tok == ":" {
				p.l.next()
				if p.l.tok != "]" {
					hi = p.quant()
				}
				p.expect("]")
				e = &ESlice{e, lo, hi}
				continue
			}
			p.expect("]")
			e = &EIndex{e, lo}
		case "(":
			p.l.next()
			var args []Expr
			for p.l.tok != ")" {
				args = append(args, p.quant())
				if p.l.tok == "," {
					p.l.next()
				}
			}
			p.expect(")")
			if id, ok := e.(*EIdent); ok && id.Name == "old" && len(args) == 1 {
				e = &EOld{args[0]}
			} else {
				e = &ECall{e, args}
			}
		default:
			return e
		}
	}
}

func (p *parser) primary() Expr {
	switch p.l.kind {
	case 'i':
		e := &EIdent{p.l.tok}
		p.l.next()
		return e
	case 'n':
		e := &ENum{p.l.tok}
		p.l.next()
		return e
	case 's':
		e := &EStr{p.l.tok}
		p.l.next()
		return e
	}
	if p.l.tok == "(" {
		p.l.next()
		e := p.quant()
		p.expect(")")
		return e
	}
	panic(fmt.Sprintf("unexpected %q at %d", p.l.tok, p.l.pos))
}
