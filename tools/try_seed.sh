#!/bin/sh
# usage: tools/try_seed.sh <patch.diff> [props...]  : apply to /repo, run checks, revert
patch=$(realpath "$1"); shift
props="$@"
[ -z "$props" ] && props="C01 C02 C03 C04 C05 C06 C07 C08 C09 C10 C11 C14 C17"
cd /repo || exit 2
git diff --quiet || { echo "repo not clean"; exit 2; }
git apply "$patch" || { echo "patch does not apply"; exit 2; }
cd /verif
for p in $props; do
  out=$(./check $p quick 2>&1)
  rc=$?
  echo "$p rc=$rc $(echo "$out" | tail -1)"
  echo "$out" | grep "^VIOLATION" | sed 's/replay=[^ ]* //' | cut -c1-200 | head -6
done
git -C /repo checkout -- .
