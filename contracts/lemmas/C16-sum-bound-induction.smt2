; Lemma C16-sum-bound-induction (checked by cvc5 --quant-ind): the inductive
; fact used as a hypothesis by C16-sum-exact.
(set-logic ALL)
(define-fun-rec sum ((a (Array Int Int)) (lo Int) (hi Int)) Int
  (ite (<= hi lo) 0 (+ (sum a lo (- hi 1)) (select a (- hi 1)))))
(declare-fun freqs () (Array Int Int))
(assert (not (forall ((n Int)) (=> (and (>= n 0) (forall ((j Int)) (=> (and (<= 0 j) (< j n)) (<= (select freqs j) 1)))) (<= (sum freqs 0 n) n)))))
(check-sat)
