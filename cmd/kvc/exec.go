package main

import (
	"encoding/json"
	"path/filepath"
	"fmt"
	"os"
	"strings"
	"go/constant"
	"go/token"
	"go/types"
	"math/big"
	"sort"

	"golang.org/x/tools/go/ssa"
)

type Exec struct {
	cx         *Ctx
	ld         *Loaded
	cs         *Contracts
	fieldOwner map[*types.Var]string
	fc         *FuncContract
	fn         *ssa.Function
	entry      *State
	paramEntry map[string]SVal
	depth      int
	nilChecked map[string]bool
	callOrd    map[string]int
	kindOrd    map[string]int
	rgMode     bool
	edgeFrom   map[*State]*ssa.BasicBlock
	rg         *RG
	readLog    map[string]bool
	entryMeasure Term
	heapElemType map[string]types.Type
	inHandler  int // >0 while deferred calls are being executed
	nextFrameDeferred bool // the next inlined frame is the function of a defer statement
	orphanLoops map[int]string // reference loop ordinals (and signatures) that no loop of the function itself matches
	instDone   map[string]bool
	qhyps      []qhyp // quantified hypotheses that can be instantiated at goal constants
}

type qhyp struct {
	inst  func(sk map[string]SVal) (Term, bool)
	guard Term
}

// instantiateHyps assumes the instances of the registered quantified
// hypotheses at the constants of a skolemised goal.
func (ex *Exec) instantiateHyps(sk map[string]SVal) {
	if len(sk) == 0 {
		return
	}
	for _, h := range ex.qhyps {
		if t, ok := h.inst(sk); ok {
			ex.cx.assume(implies(h.guard, t))
		}
	}
	// neighbours of integer constants (x[k-1] < x[k] style clauses)
	if ex.cx.mode == "int" && len(sk) == 1 {
		for n, v := range sk {
			sc, ok := v.V.(Sc)
			if !ok || sc.T.Sort != SInt {
				continue
			}
			for _, d := range []int64{-1, 1} {
				sk2 := map[string]SVal{n: {V: Sc{app(SInt, "+", sc.T, intLit(d))}, T: v.T}}
				for _, h := range ex.qhyps {
					if t, ok := h.inst(sk2); ok {
						ex.cx.assume(implies(h.guard, t))
					}
				}
			}
		}
	}
}

// assumeUniversal: after a goal with skolemised quantifiers has been posed,
// later obligations may use its universally quantified form.
func (ex *Exec) assumeUniversal(st *State, sk map[string]SVal, mk func() *SpecEnv, e Expr) {
	if len(sk) == 0 {
		return
	}
	env := mk()
	nUnsup := len(ex.cx.unsupported)
	t := env.evalBool(e)
	if len(ex.cx.unsupported) != nUnsup {
		ex.cx.unsupported = ex.cx.unsupported[:nUnsup]
		return
	}
	ex.cx.assume(implies(st.reach, t))
}

// instantiateAtIndex: eager instantiation of the single-variable quantified
// hypotheses at an index the code touches (element of a slice of structs).
func (ex *Exec) instantiateAtIndex(idx Term) {
	if ex.instDone == nil {
		ex.instDone = map[string]bool{}
	}
	if len(ex.instDone) > 400 || strings.Contains(idx.S, "!q") {
		return
	}
	for i, h := range ex.qhyps {
		key := fmt.Sprintf("%d|%s", i, idx.S)
		if ex.instDone[key] {
			continue
		}
		ex.instDone[key] = true
		if t, ok := h.inst(map[string]SVal{"*": {V: Sc{idx}, T: types.Typ[types.Int]}}); ok {
			ex.cx.assume(implies(h.guard, t))
		}
	}
}

type exitRec struct {
	st  *State
	val Val
}

type Frame struct {
	ex       *Exec
	fn       *ssa.Function
	regs     map[ssa.Value]Val
	isTop    bool
	normal   []exitRec
	panics   []exitRec
	direct   map[*ssa.Alloc]bool
	loops    *loopInfo
	inPanicDefers bool
	deferredDirectly bool // this frame runs a function called by a defer statement
	inRecoverBlock   bool // executing the synthetic recover block (return after a recovered panic)
	adoptsLoops      bool // inlined helper whose loops carry `loop N` clauses of the function under contract
	loopCtxs map[*ssa.BasicBlock]*loopCtx
}

func (ex *Exec) pos(p token.Pos) token.Position {
	if !p.IsValid() {
		return token.Position{}
	}
	return ex.ld.fset.Position(p)
}

// obligation helper: numbered per kind in generation order.
func (ex *Exec) oblige(kind, label string, st *State, goal Term, p token.Pos, props []string) {
	if goal.S == "true" {
		return
	}
	o := ex.cx.oblige(kind, label, st.reach, goal, ex.pos(p), props)
	key := kind + ":" + label
	ex.kindOrd[key]++
	n := ex.kindOrd[key]
	o.Name = fmt.Sprintf("%s#%s", ex.cx.fnName, kind)
	if label != "" {
		o.Name += ":" + label
	}
	if n > 1 || kind == "nopanic" || kind == "pre" {
		o.Name += fmt.Sprintf("@%d", n)
	}
	// continue under the assumption that the check passed
	ex.cx.assume(implies(st.reach, goal))
}

// check emits a no-panic obligation: cond must hold or the instruction panics.
func (fr *Frame) mustHold(st *State, what string, cond Term, p token.Pos) {
	ex := fr.ex
	if cond.S == "true" {
		return
	}
	if ex.mayPanic() {
		// function has an exceptional postcondition: the failing case is a panic exit
		ps := st.clone()
		ps.reach = ex.cx.name("r", and(st.reach, not(cond)))
		fr.panics = append(fr.panics, exitRec{ps, Sc{ex.runtimePanicVal()}})
		st.reach = ex.cx.name("r", and(st.reach, cond))
		return
	}
	ex.oblige("nopanic", what, st, cond, p, nil)
}

func (ex *Exec) runtimePanicVal() Term {
	ex.cx.declConst("runtime$error", SIface)
	ex.cx.assume(not(eq(Term{"runtime$error", SIface}, nilIface())))
	return Term{"runtime$error", SIface}
}

// mayPanic: panics of the function under verification are exits to be
// checked against its `panics` clause (or caught by its deferred recover)
// rather than errors.
func (ex *Exec) mayPanic() bool {
	if os.Getenv("KVC_NOPANICS") == "1" {
		return false
	}
	return ex.fc != nil && (len(ex.fc.Panics) > 0 || ex.fc.Opts["panics"] == "caught")
}

// ---------------------------------------------------------------------
// loops

type loopInfo struct {
	heads   map[*ssa.BasicBlock]int // ordinal (1-based, in block order)
	body    map[*ssa.BasicBlock]map[*ssa.BasicBlock]bool
	back    map[[2]int]bool // edge (from,to) block indices
	rpo     []*ssa.BasicBlock
}

func analyzeLoops(fn *ssa.Function) *loopInfo {
	li := &loopInfo{heads: map[*ssa.BasicBlock]int{}, body: map[*ssa.BasicBlock]map[*ssa.BasicBlock]bool{}, back: map[[2]int]bool{}}
	if len(fn.Blocks) == 0 {
		return li
	}
	state := map[*ssa.BasicBlock]int{}
	var post []*ssa.BasicBlock
	var dfs func(b *ssa.BasicBlock)
	dfs = func(b *ssa.BasicBlock) {
		state[b] = 1
		for _, s := range b.Succs {
			switch state[s] {
			case 0:
				dfs(s)
			case 1:
				li.back[[2]int{b.Index, s.Index}] = true
			}
		}
		state[b] = 2
		post = append(post, b)
	}
	dfs(fn.Blocks[0])
	for i := len(post) - 1; i >= 0; i-- {
		li.rpo = append(li.rpo, post[i])
	}
	var heads []*ssa.BasicBlock
	seen := map[*ssa.BasicBlock]bool{}
	for e := range li.back {
		h := fn.Blocks[e[1]]
		if !seen[h] {
			seen[h] = true
			heads = append(heads, h)
		}
	}
	sort.Slice(heads, func(i, j int) bool { return heads[i].Index < heads[j].Index })
	for i, h := range heads {
		li.heads[h] = i + 1
		body := map[*ssa.BasicBlock]bool{h: true}
		var work []*ssa.BasicBlock
		for e := range li.back {
			if e[1] == h.Index {
				src := fn.Blocks[e[0]]
				if !body[src] {
					body[src] = true
					work = append(work, src)
				}
			}
		}
		for len(work) > 0 {
			b := work[len(work)-1]
			work = work[:len(work)-1]
			for _, p := range b.Preds {
				if !body[p] {
					body[p] = true
					work = append(work, p)
				}
			}
		}
		li.body[h] = body
	}
	return li
}

// ---------------------------------------------------------------------
// function execution

func (ex *Exec) newFrame(fn *ssa.Function, top bool) *Frame {
	fr := &Frame{ex: ex, fn: fn, regs: map[ssa.Value]Val{}, isTop: top, direct: map[*ssa.Alloc]bool{}}
	fr.loops = analyzeLoops(fn)
	if top {
		ex.orphanLoops = remapLoops(fn, fr.loops)
	} else if len(ex.orphanLoops) > 0 && len(fr.loops.heads) > 0 {
		// a loop of the function under contract that moved into this (uncontracted, inlined)
		// helper keeps its `loop N` clauses: matched by signature with the reference loops
		// that no longer exist in the function itself. The clauses still have to be proved.
		sigs := loopSigs(fn, fr.loops)
		next := 2000
		for h, ord := range fr.loops.heads {
			adopted := 0
			if ord >= 1 && ord <= len(sigs) {
				for b, rs := range ex.orphanLoops {
					if rs == sigs[ord-1] {
						adopted = b
					}
				}
			}
			if adopted > 0 {
				fr.loops.heads[h] = adopted
				fr.adoptsLoops = true
				delete(ex.orphanLoops, adopted)
				ex.cx.note("loop %d of the contract of %s is applied to the loop that moved into the helper %s", adopted, ex.fn.Name(), fn.Name())
			} else {
				next++
				fr.loops.heads[h] = next
			}
		}
	}
	for _, b := range fn.Blocks {
		for _, ins := range b.Instrs {
			if a, ok := ins.(*ssa.Alloc); ok {
				fr.direct[a] = ex.isDirect(a)
			}
		}
	}
	return fr
}

func (ex *Exec) isDirect(a *ssa.Alloc) bool {
	et := a.Type().Underlying().(*types.Pointer).Elem()
	if _, ok := ex.cx.sortOf(et); !ok {
		if _, isTuple := et.Underlying().(*types.Tuple); !isTuple {
			return false
		}
	}
	for _, r := range *a.Referrers() {
		switch x := r.(type) {
		case *ssa.Store:
			if x.Val == ssa.Value(a) {
				return false
			}
		case *ssa.UnOp, *ssa.DebugRef:
		case *ssa.MakeClosure:
		default:
			return false
		}
	}
	return true
}

// run executes the frame's function from state st with the given arguments
// bound; it returns the merged normal exit (state + results) and the merged
// uncaught-panic exit (either may be nil).
func (fr *Frame) run(st *State, args []Val, bindings []Val) (*exitRec, *exitRec) {
	ex := fr.ex
	fn := fr.fn
	if len(fn.Blocks) == 0 {
		ex.cx.unsup("function %s has no body", fn)
		return nil, nil
	}
	for i, p := range fn.Params {
		if i < len(args) {
			fr.regs[p] = args[i]
		}
	}
	for i, fv := range fn.FreeVars {
		if i < len(bindings) {
			fr.regs[fv] = bindings[i]
		}
	}
	savedDefers := st.defers
	st = st.clone()
	st.defers = nil
	incoming := map[*ssa.BasicBlock][]edgeState{}
	incoming[fn.Blocks[0]] = []edgeState{{st, tTrue}}
	for _, b := range fr.loops.rpo {
		ins := incoming[b]
		if len(ins) == 0 {
			continue
		}
		cur := ex.mergeStates(fmt.Sprintf("b%d", b.Index), ins)
		if ord, isHead := fr.loops.heads[b]; isHead {
			cur = fr.enterLoop(b, ord, cur)
		}
		fr.execBlock(b, cur, incoming, ins)
	}
	// panic exits: run deferred calls, maybe recover
	var panicOut *exitRec
	if len(fr.panics) > 0 {
		panicOut = fr.handlePanics()
	}
	var normalOut *exitRec
	if len(fr.normal) > 0 {
		var es []edgeState
		var vals []Val
		var guards []Term
		for _, e := range fr.normal {
			es = append(es, edgeState{e.st, tTrue})
			vals = append(vals, e.val)
			guards = append(guards, e.st.reach)
		}
		ms := ex.mergeStates("exit", es)
		var rv Val
		if vals[0] != nil {
			rv = ex.mergeVals("ret", vals, guards)
		}
		ms.defers = savedDefers
		normalOut = &exitRec{ms, rv}
	}
	if panicOut != nil {
		panicOut.st.defers = savedDefers
	}
	return normalOut, panicOut
}

func (fr *Frame) handlePanics() *exitRec {
	// panics raised before any defer was registered escape directly
	var with, without []exitRec
	for _, e := range fr.panics {
		if len(e.st.defers) == 0 {
			without = append(without, e)
		} else {
			with = append(with, e)
		}
	}
	fr.panics = nil
	var outs []exitRec
	if len(without) > 0 {
		outs = append(outs, without...)
	}
	if len(with) > 0 {
		outs = append(outs, fr.handleDeferredPanics(with)...)
	}
	if len(outs) == 0 {
		return nil
	}
	ex := fr.ex
	var es []edgeState
	var vals []Val
	var guards []Term
	for _, e := range outs {
		es = append(es, edgeState{e.st, tTrue})
		vals = append(vals, e.val)
		guards = append(guards, e.st.reach)
	}
	ms := ex.mergeStates("panicout", es)
	return &exitRec{ms, ex.mergeVals("panicval", vals, guards)}
}

func (fr *Frame) handleDeferredPanics(ps []exitRec) []exitRec {
	ex := fr.ex
	var es []edgeState
	var vals []Val
	var guards []Term
	for _, e := range ps {
		es = append(es, edgeState{e.st, tTrue})
		vals = append(vals, e.val)
		guards = append(guards, e.st.reach)
	}
	ms := ex.mergeStates("panic", es)
	pv := ex.scalarOf(ex.mergeVals("panicval", vals, guards))
	ms.vars["panicking"] = pv
	fr.inPanicDefers = true
	ms = fr.runDefers(ms)
	fr.inPanicDefers = false
	if ms == nil {
		return nil
	}
	still := ex.varOf(ms, "panicking", SIface)
	recovered := eq(still, nilIface())
	// panics raised while running the deferred calls escape
	var extra []exitRec
	extra, fr.panics = fr.panics, nil
	if recovered.S != "true" {
		ps := ms.clone()
		ps.reach = ex.cx.name("r", and(ms.reach, not(recovered)))
		extra = append(extra, exitRec{ps, Sc{still}})
	}
	if recovered.S != "false" {
		rs := ms.clone()
		rs.reach = ex.cx.name("r", and(ms.reach, recovered))
		rs.vars["panicking"] = nilIface()
		// resume at the Recover block (returns the named results)
		if fr.fn.Recover != nil {
			// the return of the recover block is not a return statement of the source: no atreturn clauses
			fr.inRecoverBlock = true
			fr.execBlock(fr.fn.Recover, rs, map[*ssa.BasicBlock][]edgeState{}, nil)
			fr.inRecoverBlock = false
		} else {
			var rv Val
			res := fr.fn.Signature.Results()
			if res.Len() == 1 {
				rv = ex.zeroVal(res.At(0).Type())
			} else if res.Len() > 1 {
				rv = ex.zeroVal(res)
			}
			fr.normal = append(fr.normal, exitRec{rs, rv})
		}
	}
	return extra
}

// runDefers executes the deferred calls of st in LIFO order.
func (fr *Frame) runDefers(st *State) *State {
	ex := fr.ex
	ds := st.defers
	st.defers = nil
	ex.inHandler++
	defer func() { ex.inHandler-- }()
	for i := len(ds) - 1; i >= 0 && st != nil; i-- {
		d := ds[i]
		switch f := d.fn.(type) {
		case FuncV:
			ex.nextFrameDeferred = true
			_, st = ex.callFunction(fr, st, f.Fn, d.args, f.Bindings, d.call, token.NoPos, true)
			ex.nextFrameDeferred = false
		default:
			ex.cx.unsup("deferred call of unknown function value")
		}
	}
	return st
}

func (fr *Frame) execBlock(b *ssa.BasicBlock, st *State, incoming map[*ssa.BasicBlock][]edgeState, ins []edgeState) {
	ex := fr.ex
	for _, instr := range b.Instrs {
		if st == nil {
			return
		}
		switch x := instr.(type) {
		case *ssa.Phi:
			// value by incoming edge
			var vals []Val
			var guards []Term
			for i, p := range b.Preds {
				// find the incoming edge state coming from p
				for _, e := range ins {
					if e.st != nil && ex.edgeFrom[e.st] == p {
						vals = append(vals, fr.val(x.Edges[i]))
						guards = append(guards, and(e.st.reach, e.cond))
					}
				}
			}
			if len(vals) == 0 {
				ex.cx.unsup("phi without incoming values")
				fr.regs[x] = ex.havocVal("phi", x.Type())
			} else {
				fr.regs[x] = ex.mergeVals("phi", vals, guards)
			}
		case *ssa.If:
			c := fr.val(x.Cond).(Sc).T
			c = ex.cx.name("c", c)
			fr.edge(b, b.Succs[0], st, c, incoming)
			fr.edge(b, b.Succs[1], st, not(c), incoming)
			return
		case *ssa.Jump:
			fr.edge(b, b.Succs[0], st, tTrue, incoming)
			return
		case *ssa.Return:
			var rv Val
			switch len(x.Results) {
			case 0:
			case 1:
				rv = fr.val(x.Results[0])
			default:
				a := Agg{}
				for _, r := range x.Results {
					a.F = append(a.F, fr.val(r))
				}
				rv = a
			}
			if fr.isTop && ex.fc != nil && fr.ex.inHandler == 0 && !fr.inRecoverBlock {
				for _, cl := range ex.fc.AtReturn {
					mk := func() *SpecEnv {
						env := ex.specEnv(fr, st, ex.entry)
						// the values being returned: result (one result) or result0..resultN
						res := fr.fn.Signature.Results()
						for i, r := range x.Results {
							if i < res.Len() {
								env.vars[fmt.Sprintf("result%d", i)] = SVal{V: fr.val(r), T: res.At(i).Type()}
								if res.Len() == 1 {
									env.vars["result"] = SVal{V: fr.val(r), T: res.At(i).Type()}
								}
							}
						}
						return env
					}
					nUnsup := len(ex.cx.unsupported)
					g, sk := mk().evalGoalSkolem(cl.Expr)
					if len(ex.cx.unsupported) != nUnsup {
						// a local of the clause is not in scope at this return
						ex.cx.unsupported = ex.cx.unsupported[:nUnsup]
						continue
					}
					label := cl.Label
					if label == "" {
						label = fmt.Sprintf("L%d", cl.Line)
					}
					ex.instantiateHyps(sk)
					ex.oblige("atreturn", label, st, g, x.Pos(), cl.Props)
					ex.assumeUniversal(st, sk, mk, cl.Expr)
				}
			}
			fr.normal = append(fr.normal, exitRec{st, rv})
			return
		case *ssa.Panic:
			pv := fr.val(x.X)
			fr.panics = append(fr.panics, exitRec{st, pv})
			if !ex.mayPanic() && fr.isTop && len(st.defers) == 0 {
				ex.oblige("nopanic", "explicit-panic", st, tFalse, x.Pos(), nil)
			}
			return
		default:
			st = fr.execInstr(instr, st)
		}
	}
}

func (fr *Frame) edge(from, to *ssa.BasicBlock, st *State, cond Term, incoming map[*ssa.BasicBlock][]edgeState) {
	ex := fr.ex
	if fr.loops.back[[2]int{from.Index, to.Index}] {
		// back edge: the invariant must be re-established
		s2 := st.clone()
		s2.reach = ex.cx.name("r", and(st.reach, cond))
		fr.closeLoop(to, fr.loops.heads[to], s2, from)
		return
	}
	s2 := st.clone()
	ex.edgeFrom[s2] = from
	// leaving a loop: exit invariants
	for h, ord := range fr.loops.heads {
		if fr.loops.body[h][from] && !fr.loops.body[h][to] && (fr.isTop || fr.adoptsLoops) && ex.fc != nil && len(ex.fc.LoopExit[ord]) > 0 {
			s3 := st.clone()
			s3.reach = ex.cx.name("r", and(st.reach, cond))
			fr.exitLoop(h, ord, s3, from)
		}
	}
	incoming[to] = append(incoming[to], edgeState{s2, cond})
}

// val evaluates an SSA value (register, constant, global, function).
func (fr *Frame) val(v ssa.Value) Val {
	if r, ok := fr.regs[v]; ok {
		return r
	}
	ex := fr.ex
	switch x := v.(type) {
	case *ssa.Const:
		return ex.constVal(x)
	case *ssa.Global:
		return GlobalAddr{x}
	case *ssa.Function:
		return FuncV{Fn: x}
	case *ssa.Builtin:
		return nil
	}
	ex.cx.unsup("use of undefined SSA value %s (%T) in %s", v.Name(), v, fr.fn.Name())
	hv := ex.havocVal("undef", v.Type())
	fr.regs[v] = hv
	return hv
}

func (ex *Exec) constVal(c *ssa.Const) Val {
	t := c.Type()
	if c.Value == nil {
		return ex.zeroVal(t)
	}
	switch c.Value.Kind() {
	case constant.Bool:
		if constant.BoolVal(c.Value) {
			return Sc{tTrue}
		}
		return Sc{tFalse}
	case constant.String:
		return Sc{ex.cx.strID(constant.StringVal(c.Value))}
	case constant.Int:
		n, _ := new(big.Int).SetString(c.Value.ExactString(), 10)
		if b, ok := t.Underlying().(*types.Basic); ok && b.Info()&types.IsInteger != 0 {
			if ex.cx.mode == "bv" {
				return Sc{bvLit(n, intWidth(b))}
			}
			return Sc{bigLit(n)}
		}
	}
	// floats etc: an uninterpreted constant per value
	if s, ok := ex.cx.sortOf(t); ok {
		name := "const$" + mangle(c.Value.ExactString()) + "$" + mangle(s)
		ex.cx.declConst(name, s)
		return Sc{Term{name, s}}
	}
	ex.cx.unsup("constant %s", c)
	return Sc{tNull}
}

func (ex *Exec) newObj(st *State) Term {
	ap := ex.varOf(st, "allocptr", SInt)
	n := ex.cx.fresh("o", SInt)
	ex.cx.assume(app(SBool, ">=", n, ap))
	st.vars["allocptr"] = app(SInt, "+", n, intLit(1))
	return app(SRef, "obj", n)
}

// refIsOld: a reference read from the heap / a parameter designates an object
// allocated before now.
func (ex *Exec) assumeOld(st *State, v Term, guard Term) {
	ap := ex.varOf(st, "allocptr", SInt)
	switch v.Sort {
	case SRef:
		ex.cx.assume(implies(guard, ex.refOld(v, ap)))
	case SSlice:
		ex.cx.assume(implies(guard, ex.refOld(app(SRef, "sarr", v), ap)))
	case SIface:
		ex.cx.assume(implies(guard, ex.refOld(app(SRef, "ival", v), ap)))
	}
}

// refOldStrict: r designates a location of an object allocated before ap
// (null, boxes and globals included).
func (ex *Exec) refOldStrict(r, ap Term) Term {
	isObj := func(x Term) Term { return app(SBool, "(_ is obj)", x) }
	ge := func(x Term) Term { return and(isObj(x), app(SBool, ">=", app(SInt, "oid", x), ap)) }
	fb := app(SRef, "fbase", r)
	eb := app(SRef, "ebase", r)
	isF := app(SBool, "(_ is fld)", r)
	isE := app(SBool, "(_ is elem)", r)
	return not(or(ge(r), and(isF, ge(fb)), and(isE, ge(eb)),
		and(isF, app(SBool, "(_ is fld)", fb), ge(app(SRef, "fbase", fb))),
		and(isF, app(SBool, "(_ is elem)", fb), ge(app(SRef, "ebase", fb))),
		and(isE, app(SBool, "(_ is fld)", eb), ge(app(SRef, "fbase", eb)))))
}

func (ex *Exec) refOld(r, ap Term) Term {
	return ex.refOldStrict(r, ap)
}

func (fr *Frame) execInstr(instr ssa.Instruction, st *State) *State {
	ex := fr.ex
	switch x := instr.(type) {
	case *ssa.DebugRef:
	case *ssa.Alloc:
		et := x.Type().Underlying().(*types.Pointer).Elem()
		if fr.direct[x] {
			fr.regs[x] = LocalAddr{x}
			st.locals[x] = ex.zeroVal(et)
		} else {
			ref := ex.newObj(st)
			fr.regs[x] = Sc{ref}
			ex.storeViaRef(st, ref, ex.zeroVal(et), et)
		}
	case *ssa.Store:
		addr := fr.val(x.Addr)
		fr.nilCheckAddr(st, addr, x.Pos())
		ex.store(st, addr, fr.val(x.Val), x.Val.Type())
	case *ssa.UnOp:
		fr.regs[x] = fr.unop(x, st)
	case *ssa.BinOp:
		a, b := fr.val(x.X), fr.val(x.Y)
		fr.regs[x] = fr.binop(st, x.Op, a, b, x.X.Type(), x.Y.Type(), x.Type(), x.Pos())
	case *ssa.Convert:
		fr.regs[x] = ex.convert(fr.val(x.X), x.X.Type(), x.Type())
	case *ssa.ChangeType:
		fr.regs[x] = fr.val(x.X)
	case *ssa.ChangeInterface:
		fr.regs[x] = fr.val(x.X)
	case *ssa.MakeInterface:
		fr.regs[x] = Sc{ex.makeIface(fr.val(x.X), x.X.Type())}
	case *ssa.TypeAssert:
		fr.regs[x] = fr.typeAssert(st, x)
	case *ssa.Extract:
		t := fr.val(x.Tuple)
		if a, ok := t.(Agg); ok && x.Index < len(a.F) {
			fr.regs[x] = a.F[x.Index]
		} else {
			ex.cx.unsup("extract from non-tuple")
			fr.regs[x] = ex.havocVal("ext", x.Type())
		}
	case *ssa.FieldAddr:
		base := fr.val(x.X)
		stt := x.X.Type().Underlying().(*types.Pointer).Elem().Underlying().(*types.Struct)
		var obj Term
		switch bv := base.(type) {
		case Sc:
			obj = bv.T
			fr.nilCheck(st, obj, x.Pos())
		default:
			var ok bool
			obj, ok = ex.materialize(base)
			if !ok {
				ex.cx.unsup("field address of %T", base)
				obj = tNull
			}
		}
		fr.regs[x] = FieldAddrV{Obj: obj, Fld: stt.Field(x.Field)}
	case *ssa.Field:
		a, ok := fr.val(x.X).(Agg)
		if ok && x.Field < len(a.F) {
			fr.regs[x] = a.F[x.Field]
		} else {
			ex.cx.unsup("field of non-aggregate value")
			fr.regs[x] = ex.havocVal("fld", x.Type())
		}
	case *ssa.IndexAddr:
		fr.regs[x] = fr.indexAddr(st, x)
	case *ssa.Index:
		fr.regs[x] = fr.index(st, x)
	case *ssa.Slice:
		fr.regs[x] = fr.slice(st, x)
	case *ssa.MakeSlice:
		if fr.isTop && ex.fc != nil && len(ex.fc.AtAlloc) > 0 && ex.inHandler == 0 {
			// allocation-size assertions: `atalloc <expr>` with `alloclen` bound to the requested length
			for _, cl := range ex.fc.AtAlloc {
				env := ex.specEnv(fr, st, ex.entry)
				env.vars["alloclen"] = SVal{V: fr.val(x.Len), T: x.Len.Type()}
				nUnsup := len(ex.cx.unsupported)
				g := env.evalBool(cl.Expr)
				if len(ex.cx.unsupported) != nUnsup {
					ex.cx.unsupported = ex.cx.unsupported[:nUnsup]
					g = tFalse
				}
				label := cl.Label
				if label == "" {
					label = fmt.Sprintf("L%d", cl.Line)
				}
				if g.S == "true" {
					g = Term{"(= 0 0)", SBool}
				}
				ex.oblige("atalloc", label, st, g, x.Pos(), cl.Props)
			}
		}
		fr.regs[x] = fr.makeSlice(st, x)
	case *ssa.MakeMap:
		ref := ex.newObj(st)
		fr.regs[x] = Sc{ref}
		ex.initMap(st, ref, x.Type())
	case *ssa.MapUpdate:
		ex.mapUpdate(st, fr.val(x.Map), fr.val(x.Key), fr.val(x.Value), x.Map.Type(), fr, x.Pos())
	case *ssa.Lookup:
		fr.regs[x] = ex.lookup(st, fr, x)
	case *ssa.MakeClosure:
		fv := FuncV{Fn: x.Fn.(*ssa.Function)}
		for _, b := range x.Bindings {
			fv.Bindings = append(fv.Bindings, fr.val(b))
		}
		fr.regs[x] = fv
	case *ssa.Call:
		var rv Val
		rv, st = ex.call(fr, st, x, &x.Call, x.Pos())
		if rv != nil {
			fr.regs[x] = rv
		}
	case *ssa.Defer:
		if fr.isTop && ex.fc != nil && ex.fc.Opts["defers"] == "skipped" {
			// the deferred calls of this function are not executed (declared in its contract);
			// call-site assertions still see them being registered
			var args []Val
			for _, a := range x.Call.Args {
				args = append(args, fr.val(a))
			}
			if x.Call.IsInvoke() {
				args = append([]Val{fr.val(x.Call.Value)}, args...)
			}
			ex.atCallClauses(fr, st, &x.Call, args, x.Pos())
			ex.cx.note("deferred calls of %s are not executed (opt defers skipped): %s", fr.fn.Name(), calleeName(&x.Call))
			break
		}
		d := &deferRec{fn: fr.val(x.Call.Value), call: &x.Call}
		for _, a := range x.Call.Args {
			d.args = append(d.args, fr.val(a))
		}
		st.defers = append(st.defers, d)
	case *ssa.RunDefers:
		st = fr.runDefers(st)
	case *ssa.Go:
		st = ex.goStmt(fr, st, x)
	case *ssa.Range:
		fr.regs[x] = ex.rangeInit(fr, st, x)
	case *ssa.Next:
		fr.regs[x] = ex.rangeNext(fr, st, x)
	case *ssa.Select, *ssa.Send, *ssa.MakeChan:
		ex.cx.unsup("channel operation %s", instr)
	default:
		ex.cx.unsup("instruction %T", instr)
		if v, ok := instr.(ssa.Value); ok {
			fr.regs[v] = ex.havocVal("unsup", v.Type())
		}
	}
	return st
}

func (fr *Frame) nilCheck(st *State, ref Term, p token.Pos) {
	ex := fr.ex
	h := splitSexp(ref.S)[0]
	if h == "obj" || h == "fld" || h == "elem" || ex.nilChecked[ref.S] {
		return
	}
	ex.nilChecked[ref.S] = true
	fr.mustHold(st, "nil", not(eq(ref, tNull)), p)
}

func (fr *Frame) nilCheckAddr(st *State, addr Val, p token.Pos) {
	if sc, ok := addr.(Sc); ok {
		fr.nilCheck(st, sc.T, p)
	}
}

func (fr *Frame) unop(x *ssa.UnOp, st *State) Val {
	ex := fr.ex
	v := fr.val(x.X)
	switch x.Op {
	case token.MUL:
		fr.nilCheckAddr(st, v, x.Pos())
		r := ex.load(st, v, x.Type())
		if sc, ok := r.(Sc); ok {
			if _, isLocal := v.(LocalAddr); !isLocal {
				sc.T = ex.cx.name("ld", sc.T)
				ex.assumeWellTyped(sc.T, x.Type(), tTrue)
				ex.assumeOld(st, sc.T, st.reach)
				r = sc
			}
		}
		return r
	case token.NOT:
		return Sc{not(v.(Sc).T)}
	case token.SUB:
		t := v.(Sc).T
		if t.Sort == SInt {
			return Sc{ex.cx.wrap(app(SInt, "-", t), x.Type(), true)}
		}
		if _, ok := isBV(t.Sort); ok {
			return Sc{app(t.Sort, "bvneg", t)}
		}
	case token.XOR:
		t := v.(Sc).T
		if t.Sort == SInt {
			// ^x = -x-1 (signed), max-x (unsigned)
			if isUnsigned(x.Type()) {
				_, hi := typeRange(x.Type())
				return Sc{app(SInt, "-", bigLit(hi), t)}
			}
			return Sc{app(SInt, "-", app(SInt, "-", t), intLit(1))}
		}
		if _, ok := isBV(t.Sort); ok {
			return Sc{app(t.Sort, "bvnot", t)}
		}
	}
	ex.cx.unsup("unary %s on %s", x.Op, x.X.Type())
	return ex.havocVal("unop", x.Type())
}

// convert between Go types.
func (ex *Exec) convert(v Val, from, to types.Type) Val {
	sc, ok := v.(Sc)
	if !ok {
		return v
	}
	t := sc.T
	if isInteger(from) && isInteger(to) {
		if ex.cx.mode == "int" {
			flo, fhi := typeRange(from)
			tlo, thi := typeRange(to)
			if flo.Cmp(tlo) >= 0 && fhi.Cmp(thi) <= 0 {
				return v
			}
			// one modulus away when widths are equal
			near := intWidth(from.Underlying().(*types.Basic)) == intWidth(to.Underlying().(*types.Basic))
			return Sc{ex.cx.wrap(t, to, near)}
		}
		wf, _ := isBV(t.Sort)
		wt := intWidth(to.Underlying().(*types.Basic))
		switch {
		case wf == wt:
			return v
		case wf > wt:
			return Sc{app(bvSort(wt), fmt.Sprintf("(_ extract %d 0)", wt-1), t)}
		case isUnsigned(from):
			return Sc{app(bvSort(wt), fmt.Sprintf("(_ zero_extend %d)", wt-wf), t)}
		default:
			return Sc{app(bvSort(wt), fmt.Sprintf("(_ sign_extend %d)", wt-wf), t)}
		}
	}
	fs, _ := ex.cx.sortOf(from)
	ts, ok2 := ex.cx.sortOf(to)
	if ok2 && fs == ts && !isInteger(to) {
		if _, isB := to.Underlying().(*types.Basic); !isB {
			return v // pointer / unsafe conversions
		}
	}
	if ok2 {
		// uninterpreted conversion (string<->bytes, float<->int, ...)
		name := "conv$" + mangle(fs) + "$" + mangle(ts) + "$" + mangle(types.TypeString(to, nil))
		ex.cx.declFun(name, []string{fs}, ts)
		r := app(ts, name, t)
		if ts == SSlice {
			// fresh backing array
			fr := ex.cx.fresh("conv", SSlice)
			ex.cx.assume(ex.sliceWF(fr))
			return Sc{fr}
		}
		ex.cx.assume(ex.cx.inRange(r, to))
		return Sc{r}
	}
	ex.cx.unsup("conversion %s -> %s", from, to)
	return v
}

func (ex *Exec) makeIface(v Val, t types.Type) Term {
	if _, isIf := t.Underlying().(*types.Interface); isIf {
		return v.(Sc).T
	}
	tag := ex.cx.typeTag(t)
	var payload Term
	switch x := v.(type) {
	case Sc:
		switch x.T.Sort {
		case SRef:
			payload = x.T
		case SInt:
			payload = app(SRef, "box", x.T)
		case SBool:
			payload = app(SRef, "box", ite(x.T, intLit(1), intLit(0)))
		case SStr:
			ex.cx.declFun("box$str", []string{SStr}, SRef)
			payload = app(SRef, "box$str", x.T)
		default:
			if _, ok := isBV(x.T.Sort); ok {
				payload = app(SRef, "box", app(SInt, "bv2nat", x.T))
			} else {
				name := "box$" + mangle(x.T.Sort)
				ex.cx.declFun(name, []string{x.T.Sort}, SRef)
				payload = app(SRef, name, x.T)
			}
		}
	default:
		// struct values etc.: opaque payload
		payload = ex.cx.fresh("boxed", SRef)
	}
	return app(SIface, "mkiface", tag, payload)
}

// unbox extracts a value of Go type t from an interface payload.
func (ex *Exec) unbox(iface Term, t types.Type) Val {
	s, ok := ex.cx.sortOf(t)
	if !ok {
		return ex.havocVal("unboxed", t)
	}
	p := app(SRef, "ival", iface)
	switch s {
	case SRef:
		return Sc{p}
	case SInt:
		return Sc{app(SInt, "bval", p)}
	case SBool:
		return Sc{eq(app(SInt, "bval", p), intLit(1))}
	case SStr:
		ex.cx.declFun("unbox$str", []string{SRef}, SStr)
		ex.cx.declFun("box$str", []string{SStr}, SRef)
		return Sc{app(SStr, "unbox$str", p)}
	case SIface:
		return Sc{iface}
	}
	if w, ok := isBV(s); ok {
		return Sc{app(s, fmt.Sprintf("(_ int2bv %d)", w), app(SInt, "bval", p))}
	}
	name := "unbox$" + mangle(s)
	ex.cx.declFun(name, []string{SRef}, s)
	return Sc{app(s, name, p)}
}

func (fr *Frame) typeAssert(st *State, x *ssa.TypeAssert) Val {
	ex := fr.ex
	iv := fr.val(x.X).(Sc).T
	var okT Term
	var res Val
	if _, isIf := x.AssertedType.Underlying().(*types.Interface); isIf {
		// assertion to interface type: holds for non-nil values whose dynamic
		// type implements it; unknown statically -> uninterpreted predicate
		name := "implements$" + mangle(types.TypeString(x.AssertedType, nil))
		ex.cx.declFun(name, []string{SInt}, SBool)
		okT = and(not(eq(iv, nilIface())), app(SBool, name, app(SInt, "itag", iv)))
		if it := x.AssertedType.Underlying().(*types.Interface); it.NumMethods() == 0 {
			okT = not(eq(iv, nilIface()))
		}
		res = Sc{iv}
	} else {
		okT = eq(app(SInt, "itag", iv), ex.cx.typeTag(x.AssertedType))
		res = ex.unbox(iv, x.AssertedType)
		if sc, ok := res.(Sc); ok {
			sc.T = ex.cx.name("ta", sc.T)
			ex.assumeWellTyped(sc.T, x.AssertedType, okT)
			res = sc
		}
	}
	if x.CommaOk {
		okN := ex.cx.name("ok", okT)
		// on failure the value is the zero value
		zero := ex.zeroVal(x.AssertedType)
		if sc, ok := res.(Sc); ok {
			if z, ok2 := zero.(Sc); ok2 {
				res = Sc{ite(okN, sc.T, z.T)}
			}
		}
		return Agg{F: []Val{res, Sc{okN}}}
	}
	fr.mustHold(st, "type-assert", okT, x.Pos())
	return res
}

func (fr *Frame) indexAddr(st *State, x *ssa.IndexAddr) Val {
	ex := fr.ex
	base := fr.val(x.X)
	idx := fr.idxTerm(fr.val(x.Index), x.Index.Type())
	switch t := x.X.Type().Underlying().(type) {
	case *types.Slice:
		s := base.(Sc).T
		s = ex.cx.name("s", s)
		fr.boundsCheck(st, idx, ex.slen(s), x.Pos())
		if _, scalar := ex.cx.sortOf(t.Elem()); !scalar && ex.cx.mode == "int" {
			ex.instantiateAtIndex(idx)
		}
		return ElemAddrV{Base: app(SRef, "sarr", s), Idx: ex.iadd(ex.soff(s), idx), Elem: t.Elem()}
	case *types.Pointer: // *array
		at := t.Elem().Underlying().(*types.Array)
		ref, ok := ex.materialize(base)
		if !ok {
			ex.cx.unsup("index of %T", base)
			ref = tNull
		}
		if sc, isSc := base.(Sc); isSc {
			fr.nilCheck(st, sc.T, x.Pos())
		}
		fr.boundsCheck(st, idx, ex.ilit(at.Len()), x.Pos())
		return ElemAddrV{Base: ref, Idx: idx, Elem: at.Elem()}
	}
	ex.cx.unsup("IndexAddr on %s", x.X.Type())
	return ElemAddrV{Base: tNull, Idx: idx, Elem: x.Type().Underlying().(*types.Pointer).Elem()}
}

func (fr *Frame) index(st *State, x *ssa.Index) Val {
	ex := fr.ex
	idx := fr.idxTerm(fr.val(x.Index), x.Index.Type())
	switch t := x.X.Type().Underlying().(type) {
	case *types.Array:
		if av, ok := fr.val(x.X).(arrayAt); ok {
			fr.boundsCheck(st, idx, ex.ilit(t.Len()), x.Pos())
			return ex.load(st, ElemAddrV{Base: av.Base, Idx: idx, Elem: t.Elem()}, t.Elem())
		}
	case *types.Basic: // string
		s := fr.val(x.X).(Sc).T
		fr.boundsCheck(st, idx, ex.strLen(s), x.Pos())
		ex.cx.declFun("str$at", []string{ex.cx.strSort(), ex.cx.intS()}, ex.byteSort())
		return Sc{app(ex.byteSort(), "str$at", s, idx)}
	}
	ex.cx.unsup("Index on %s", x.X.Type())
	return ex.havocVal("idx", x.Type())
}

func (ex *Exec) byteSort() string {
	if ex.cx.mode == "bv" {
		return bvSort(8)
	}
	return SInt
}

func (ex *Exec) strLen(s Term) Term {
	if ex.cx.strMode {
		l := app(SInt, "str.len", s)
		if ex.cx.mode == "bv" {
			return app(bvSort(64), "(_ int2bv 64)", l)
		}
		return l
	}
	ex.cx.declFun("str$len", []string{SInt}, ex.cx.intS())
	l := app(ex.cx.intS(), "str$len", s)
	if ex.cx.mode == "int" {
		ex.cx.assume(app(SBool, "<=", intLit(0), l))
	}
	return l
}

// idxTerm converts an index value to the index sort (Go int).
func (fr *Frame) idxTerm(v Val, t types.Type) Term {
	ex := fr.ex
	tm := v.(Sc).T
	if ex.cx.mode == "bv" {
		w, _ := isBV(tm.Sort)
		if w < 64 {
			if isUnsigned(t) {
				return app(bvSort(64), fmt.Sprintf("(_ zero_extend %d)", 64-w), tm)
			}
			return app(bvSort(64), fmt.Sprintf("(_ sign_extend %d)", 64-w), tm)
		}
	}
	return tm
}

func (ex *Exec) slen(s Term) Term { return app(ex.cx.intS(), "slen", s) }
func (ex *Exec) scap(s Term) Term { return app(ex.cx.intS(), "scap", s) }
func (ex *Exec) soff(s Term) Term { return app(ex.cx.intS(), "soff", s) }

func (ex *Exec) iadd(a, b Term) Term {
	if ex.cx.mode == "bv" {
		return app(a.Sort, "bvadd", a, b)
	}
	if a.S == "0" {
		return b
	}
	if b.S == "0" {
		return a
	}
	return app(SInt, "+", a, b)
}

func (ex *Exec) isub(a, b Term) Term {
	if ex.cx.mode == "bv" {
		return app(a.Sort, "bvsub", a, b)
	}
	if b.S == "0" {
		return a
	}
	return app(SInt, "-", a, b)
}

func (ex *Exec) ile(a, b Term) Term {
	if ex.cx.mode == "bv" {
		return app(SBool, "bvsle", a, b)
	}
	return app(SBool, "<=", a, b)
}

func (ex *Exec) ilt(a, b Term) Term {
	if ex.cx.mode == "bv" {
		return app(SBool, "bvslt", a, b)
	}
	return app(SBool, "<", a, b)
}

func (fr *Frame) boundsCheck(st *State, idx, n Term, p token.Pos) {
	ex := fr.ex
	fr.mustHold(st, "index", and(ex.ile(ex.izero(), idx), ex.ilt(idx, n)), p)
}

func (fr *Frame) slice(st *State, x *ssa.Slice) Val {
	ex := fr.ex
	base := fr.val(x.X)
	var arr, off, ln, cp Term
	isString := false
	switch t := x.X.Type().Underlying().(type) {
	case *types.Slice:
		s := ex.cx.name("s", base.(Sc).T)
		arr, off, ln, cp = app(SRef, "sarr", s), ex.soff(s), ex.slen(s), ex.scap(s)
	case *types.Pointer:
		at := t.Elem().Underlying().(*types.Array)
		ref, ok := ex.materialize(base)
		if !ok {
			ex.cx.unsup("slice of %T", base)
			ref = tNull
		}
		arr, off, ln, cp = ref, ex.izero(), ex.ilit(at.Len()), ex.ilit(at.Len())
	case *types.Basic:
		isString = true
		s := base.(Sc).T
		ln = ex.strLen(s)
		cp = ln
	default:
		ex.cx.unsup("Slice on %s", x.X.Type())
		return ex.havocVal("slice", x.Type())
	}
	lo := ex.izero()
	if x.Low != nil {
		lo = fr.idxTerm(fr.val(x.Low), x.Low.Type())
	}
	hi := ln
	if x.High != nil {
		hi = fr.idxTerm(fr.val(x.High), x.High.Type())
	}
	mx := cp
	if x.Max != nil {
		mx = fr.idxTerm(fr.val(x.Max), x.Max.Type())
	}
	fr.mustHold(st, "slice", and(ex.ile(ex.izero(), lo), ex.ile(lo, hi), ex.ile(hi, mx), ex.ile(mx, cp)), x.Pos())
	if isString {
		return ex.havocVal("substr", x.Type())
	}
	return Sc{app(SSlice, "mkslice", arr, ex.iadd(off, lo), ex.isub(hi, lo), ex.isub(mx, lo))}
}

func (fr *Frame) makeSlice(st *State, x *ssa.MakeSlice) Val {
	ex := fr.ex
	ln := fr.idxTerm(fr.val(x.Len), x.Len.Type())
	cp := fr.idxTerm(fr.val(x.Cap), x.Cap.Type())
	// make panics on negative or too large sizes
	limit := ex.ilit(1 << 50)
	fr.mustHold(st, "makeslice", and(ex.ile(ex.izero(), ln), ex.ile(ln, cp), ex.ile(cp, limit)), x.Pos())
	ref := ex.newObj(st)
	et := x.Type().Underlying().(*types.Slice).Elem()
	ex.zeroArray(st, ref, et)
	return Sc{app(SSlice, "mkslice", ref, ex.izero(), ln, cp)}
}

// zeroArray zero-initialises the array object at ref.
func (ex *Exec) zeroArray(st *State, ref Term, et types.Type) {
	if es, ok := ex.cx.sortOf(et); ok {
		name := contentHeapName(es)
		h := ex.heap(st, name, ex.contentSort(es))
		c := Term{"((as const " + arrSort(ex.cx.intS(), es) + ") " + ex.zeroTerm(es).S + ")", arrSort(ex.cx.intS(), es)}
		ex.setHeap(st, name, ex.cx.name("h", store(h, ref, c)))
		return
	}
	// array of structs: every (nested) field of every element is zero
	if stt, ok := et.Underlying().(*types.Struct); ok {
		is := ex.cx.intS()
		var rec func(stt *types.Struct, addr func(i string) string, depth int)
		rec = func(stt *types.Struct, addr func(i string) string, depth int) {
			for k := 0; k < stt.NumFields(); k++ {
				f := stt.Field(k)
				if sub, ok := f.Type().Underlying().(*types.Struct); ok {
					id := ex.cx.fieldID(f)
					rec(sub, func(i string) string { return fmt.Sprintf("(fld %s %d)", addr(i), id) }, depth+1)
					continue
				}
				fs, ok := ex.cx.sortOf(f.Type())
				if !ok {
					ex.cx.unsup("array-typed field in array element %s", et)
					continue
				}
				name := ex.fieldHeapName(f)
				h := ex.heap(st, name, arrSort(SRef, fs))
				nh := ex.freshHeap("hz_", name, h.Sort)
				a := addr("i!z")
				ex.cx.assume(Term{fmt.Sprintf("(forall ((i!z %s)) (! (= (select %s %s) %s) :pattern ((select %s %s))))", is, nh.S, a, ex.zeroTerm(fs).S, nh.S, a), SBool})
				// every other cell keeps its value: cells whose element root is not this array
				root := "r!z"
				for d := 0; d < depth; d++ {
					root = "(fbase " + root + ")"
				}
				shape := ""
				cur := "r!z"
				for d := 0; d < depth; d++ {
					shape += fmt.Sprintf("((_ is fld) %s) ", cur)
					cur = "(fbase " + cur + ")"
				}
				inArr := fmt.Sprintf("(and %s((_ is elem) %s) (= (ebase %s) %s))", shape, root, root, ref.S)
				ex.cx.assume(Term{fmt.Sprintf("(forall ((r!z Ref)) (! (=> (not %s) (= (select %s r!z) (select %s r!z))) :pattern ((select %s r!z))))", inArr, nh.S, h.S, nh.S), SBool})
				ex.setHeap(st, name, nh)
			}
		}
		rec(stt, func(i string) string { return fmt.Sprintf("(elem %s %s)", ref.S, i) }, 0)
		return
	}
	ex.cx.unsup("make of slice of %s", et)
}

// loopSigs: one signature per loop of fn, in ordinal order: the named locals assigned in the
// loop body, and whether it is a range loop.
func loopSigs(fn *ssa.Function, li *loopInfo) []string {
	n := len(li.heads)
	sigs := make([]string, n+1)
	for h, ord := range li.heads {
		names := map[string]bool{}
		rng := false
		for b := range li.body[h] {
			for _, ins := range b.Instrs {
				switch x := ins.(type) {
				case *ssa.Store:
					if a, ok := x.Addr.(*ssa.Alloc); ok && a.Comment != "" {
						names[a.Comment] = true
					}
				case *ssa.Next:
					rng = true
				}
			}
		}
		var l []string
		for k := range names {
			l = append(l, k)
		}
		sort.Strings(l)
		s := strings.Join(l, ",")
		if rng {
			s += "|range"
		}
		if ord >= 1 && ord <= n {
			sigs[ord] = s
		}
	}
	return sigs[1:]
}

var baselineLoops map[string][]string
var baselineLoopsLoaded bool

// remapLoops: the `loop N` clauses of a contract are keyed by the ordinal the loop had in the
// reference tree. When the number of loops of the function changed (a loop moved into a helper,
// a loop added), the loops are matched with the reference loops by signature; a loop without a
// match gets an ordinal no clause refers to (its invariant is `true`). With the same number of
// loops the ordinals are kept as they are.
func remapLoops(fn *ssa.Function, li *loopInfo) map[int]string {
	if !baselineLoopsLoaded {
		baselineLoopsLoaded = true
		if b, err := os.ReadFile(filepath.Join(verifDir(), "baseline", "loops.json")); err == nil {
			json.Unmarshal(b, &baselineLoops)
		}
	}
	ref, ok := baselineLoops[fn.String()]
	if !ok || len(ref) == len(li.heads) {
		return nil
	}
	cur := loopSigs(fn, li)
	taken := map[int]bool{}
	mapping := map[int]int{} // current ordinal -> reference ordinal
	for ci, cs := range cur {
		for ri, rs := range ref {
			if !taken[ri] && rs == cs {
				taken[ri] = true
				mapping[ci+1] = ri + 1
				break
			}
		}
	}
	next := 1000
	for h, ord := range li.heads {
		if m, ok := mapping[ord]; ok {
			li.heads[h] = m
		} else {
			next++
			li.heads[h] = next
		}
	}
	orphans := map[int]string{}
	for ri, rs := range ref {
		if !taken[ri] {
			orphans[ri+1] = rs
		}
	}
	return orphans
}
