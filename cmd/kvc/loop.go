package main

import (
	"fmt"
	"go/types"
	"strings"

	"golang.org/x/tools/go/ssa"
)

type loopFrame struct {
	allowed   map[string][]Term
	elemBases map[string][]Term
	whole     map[string]bool
}

type loopCtx struct {
	frame  *loopFrame
	apIn   Term
	head   *ssa.BasicBlock
	ord    int
	entry  *State // state at loop entry (before havoc)
	headSt *State // havoced state at the head (invariant assumed)
	dec0   Term   // variant at head
	hasDec bool
}

// modSet: what a set of blocks may modify.
type modSet struct {
	locals map[*ssa.Alloc]bool
	heaps  map[string]string // name -> sort
	alloc  bool
	maps   bool
	all    bool // unknown effects: havoc every known heap
	coarse map[string]bool      // heaps whose written locations are not all known
	freshW map[string]bool      // heaps written at objects allocated inside the region
	sites  map[string][]modSite // known write sites per heap
	cur    *siteCtx             // context for sites found while scanning an inlined callee (nil = top)
	ptrSorts map[string]bool    // sorts stored through pointers of unknown shape
	region map[*ssa.BasicBlock]bool
}

// modSite: a write whose target can be named by an SSA value of the
// function being executed (and is therefore evaluable at the loop head if
// that value is loop-invariant).
type modSite struct {
	base ssa.Value // object pointer / slice / *array / pointer cell
	// contract call site
	fc    *FuncContract
	args  []ssa.Value
	names []string
	ptypes []types.Type
	item  Expr
}

type siteCtx struct{}

func newModSet() *modSet {
	return &modSet{locals: map[*ssa.Alloc]bool{}, heaps: map[string]string{}, coarse: map[string]bool{}, freshW: map[string]bool{}, sites: map[string][]modSite{}}
}

func (ms *modSet) addCoarse(name, sort string) {
	ms.heaps[name] = sort
	ms.coarse[name] = true
}

func (ms *modSet) addFresh(name, sort string) {
	ms.heaps[name] = sort
	ms.freshW[name] = true
}

func (ms *modSet) addSite(name, sort string, site modSite) {
	ms.heaps[name] = sort
	if ms.cur != nil {
		// inside an inlined callee the SSA values belong to another function
		ms.coarse[name] = true
		return
	}
	ms.sites[name] = append(ms.sites[name], site)
}

// scanMods computes a conservative modified set for the given blocks.
func (ex *Exec) scanMods(fn *ssa.Function, blocks map[*ssa.BasicBlock]bool, ms *modSet, depth int) {
	for _, b := range fn.Blocks {
		if blocks != nil && !blocks[b] {
			continue
		}
		for _, ins := range b.Instrs {
			switch x := ins.(type) {
			case *ssa.Alloc:
				et := x.Type().Underlying().(*types.Pointer).Elem()
				if ex.isDirect(x) {
					ms.locals[x] = true
				} else {
					ms.alloc = true
					ex.modsOfType(et, ms, true)
				}
			case *ssa.Store:
				ex.modsOfAddr(x.Addr, x.Val.Type(), ms, blocks)
			case *ssa.MapUpdate:
				ms.maps = true
			case *ssa.MakeSlice:
				ms.alloc = true
				et := x.Type().Underlying().(*types.Slice).Elem()
				if es, ok := ex.cx.sortOf(et); ok {
					ms.addFresh(contentHeapName(es), ex.contentSort(es))
				} else {
					ex.modsOfType(et, ms, true)
				}
			case *ssa.MakeMap, *ssa.MakeClosure, *ssa.MakeInterface:
				ms.alloc = true
			case *ssa.Call:
				ex.modsOfCall(&x.Call, ms, depth, blocks)
			case *ssa.Defer:
				ex.modsOfCall(&x.Call, ms, depth, blocks)
			case *ssa.Go:
				ms.alloc = true
				ex.modsOfCall(&x.Call, ms, depth, blocks)
			case *ssa.RunDefers:
				if fnHasDefers(fn) {
					ms.all = true
				}
			}
		}
	}
}

// modsOfType: every heap that holds a part of a value of type t.
func (ex *Exec) modsOfType(t types.Type, ms *modSet, fresh bool) {
	add := func(n, s string) {
		if fresh {
			ms.addFresh(n, s)
		} else {
			ms.addCoarse(n, s)
		}
	}
	switch u := t.Underlying().(type) {
	case *types.Struct:
		for i := 0; i < u.NumFields(); i++ {
			f := u.Field(i)
			if s, ok := ex.cx.sortOf(f.Type()); ok {
				add(ex.fieldHeapName(f), arrSort(SRef, s))
			} else {
				ex.modsOfType(f.Type(), ms, fresh)
			}
		}
	case *types.Array:
		if es, ok := ex.cx.sortOf(u.Elem()); ok {
			add(contentHeapName(es), ex.contentSort(es))
		} else {
			ex.modsOfType(u.Elem(), ms, fresh)
		}
	default:
		if s, ok := ex.cx.sortOf(t); ok {
			add(cellHeapName(s), arrSort(SRef, s))
		}
	}
}

func (ex *Exec) modsOfAddr(addr ssa.Value, vt types.Type, ms *modSet, blocks map[*ssa.BasicBlock]bool) {
	switch a := addr.(type) {
	case *ssa.Alloc:
		if ex.isDirect(a) {
			ms.locals[a] = true
			return
		}
		inRegion := blocks == nil || blocks[a.Block()]
		if s, ok := ex.cx.sortOf(vt); ok {
			if inRegion {
				ms.addFresh(cellHeapName(s), arrSort(SRef, s))
			} else {
				ms.addSite(cellHeapName(s), arrSort(SRef, s), modSite{base: a})
			}
			return
		}
		ex.modsOfType(vt, ms, inRegion)
	case *ssa.FieldAddr:
		stt := a.X.Type().Underlying().(*types.Pointer).Elem().Underlying().(*types.Struct)
		f := stt.Field(a.Field)
		if s, ok := ex.cx.sortOf(f.Type()); ok {
			if al, isAlloc := a.X.(*ssa.Alloc); isAlloc && (blocks == nil || blocks[al.Block()]) {
				ms.addFresh(ex.fieldHeapName(f), arrSort(SRef, s))
				return
			}
			ms.addSite(ex.fieldHeapName(f), arrSort(SRef, s), modSite{base: a.X})
		} else {
			ex.modsOfType(f.Type(), ms, false)
		}
	case *ssa.IndexAddr:
		if s, ok := ex.cx.sortOf(vt); ok {
			ms.addSite(contentHeapName(s), ex.contentSort(s), modSite{base: a.X})
		} else {
			ex.modsOfType(vt, ms, false)
		}
	default:
		// pointer of unknown shape: its cell, or a field it may designate
		if s, ok := ex.cx.sortOf(vt); ok {
			ms.addSite(cellHeapName(s), arrSort(SRef, s), modSite{base: addr})
			if ms.ptrSorts == nil {
				ms.ptrSorts = map[string]bool{}
			}
			ms.ptrSorts[s] = true
		} else {
			ex.modsOfType(vt, ms, false)
		}
	}
}

func (ex *Exec) sliceArgSite(arg ssa.Value, ms *modSet) {
	if sl, ok := arg.Type().Underlying().(*types.Slice); ok {
		if es, ok := ex.cx.sortOf(sl.Elem()); ok {
			ms.addSite(contentHeapName(es), ex.contentSort(es), modSite{base: arg})
		} else {
			ex.modsOfType(sl.Elem(), ms, false)
		}
	}
}

func (ex *Exec) modsOfCall(c *ssa.CallCommon, ms *modSet, depth int, blocks map[*ssa.BasicBlock]bool) {
	if c.IsInvoke() {
		fc := ex.ifaceContract(c)
		if fc == nil {
			ex.unmodelledMods(c, ms)
			return
		}
		args := append([]ssa.Value{c.Value}, c.Args...)
		names := append([]string{"this"}, fc.IfaceParams...)
		ex.modsOfContract(fc, ms, args, names)
		return
	}
	switch callee := c.Value.(type) {
	case *ssa.Builtin:
		switch callee.Name() {
		case "copy":
			ex.sliceArgSite(c.Args[0], ms)
		case "append":
			ex.sliceArgSite(c.Args[0], ms)
			if sl, ok := c.Args[0].Type().Underlying().(*types.Slice); ok {
				if es, ok := ex.cx.sortOf(sl.Elem()); ok {
					ms.addFresh(contentHeapName(es), ex.contentSort(es))
				}
			}
			ms.alloc = true
		case "clear":
			ms.all = true
		}
	case *ssa.Function:
		if _, ok := ex.libModel(callee); ok {
			ex.libMods(callee, c, ms, blocks)
			return
		}
		if fc := ex.contractOf(callee); fc != nil && !fc.Inline {
			var names []string
			for _, p := range callee.Params {
				names = append(names, p.Name())
			}
			ex.modsOfContract(fc, ms, c.Args, names)
			return
		}
		if (ex.shouldInline(callee) || (ex.contractOf(callee) != nil && ex.contractOf(callee).Inline)) && depth < 4 {
			saved := ms.cur
			ms.cur = &siteCtx{}
			sub := newModSet()
			sub.cur = ms.cur
			ex.scanMods(callee, nil, sub, depth+1)
			ms.cur = saved
			ms.mergeCoarse(sub)
			return
		}
		ex.unmodelledMods(c, ms)
	case *ssa.MakeClosure:
		if depth < 4 {
			fn := callee.Fn.(*ssa.Function)
			sub := newModSet()
			sub.cur = &siteCtx{}
			ex.scanMods(fn, nil, sub, depth+1)
			ms.mergeCoarse(sub)
			// captured cells written by the closure
			for i, fv := range fn.FreeVars {
				if a, ok := callee.Bindings[i].(*ssa.Alloc); ok && ex.isDirect(a) {
					for _, r := range *fv.Referrers() {
						if s, ok := r.(*ssa.Store); ok && s.Addr == ssa.Value(fv) {
							ms.locals[a] = true
						}
					}
				}
			}
		} else {
			ms.all = true
		}
	default:
		ex.unmodelledMods(c, ms)
	}
}

// mergeCoarse merges the effects found in an inlined callee (all coarse).
func (ms *modSet) mergeCoarse(sub *modSet) {
	for n, s := range sub.heaps {
		ms.addCoarse(n, s)
	}
	ms.alloc = ms.alloc || sub.alloc
	ms.maps = ms.maps || sub.maps
	ms.all = ms.all || sub.all
	for s := range sub.ptrSorts {
		if ms.ptrSorts == nil {
			ms.ptrSorts = map[string]bool{}
		}
		ms.ptrSorts[s] = true
	}
}

// unmodelledMods: trusted-base rule T5 — an unmodelled callee may write the
// backing arrays of its slice arguments and nothing else that is tracked.
func (ex *Exec) unmodelledMods(c *ssa.CallCommon, ms *modSet) {
	for _, a := range c.Args {
		ex.sliceArgSite(a, ms)
	}
	ms.alloc = true
}

func (ex *Exec) modsOfContract(fc *FuncContract, ms *modSet, args []ssa.Value, names []string) {
	ms.alloc = true
	if !fc.HasModifies {
		ms.all = true
		return
	}
	for _, m := range fc.Modifies {
		hs := ex.heapsOfLvalue(fc, m)
		if hs == nil {
			ms.all = true
			continue
		}
		for n, s := range hs {
			if strings.HasPrefix(n, "*ptr:") {
				if ms.ptrSorts == nil {
					ms.ptrSorts = map[string]bool{}
				}
				ms.ptrSorts[s] = true
				continue
			}
			ms.addSite(n, s, modSite{fc: fc, args: args, names: names, item: m})
		}
	}
}

// evalInv evaluates an SSA value at the loop head if it does not depend on
// anything the loop modifies.
func (fr *Frame) evalInv(v ssa.Value, in *State, ms *modSet, depth int) (Val, bool) {
	ex := fr.ex
	if depth > 12 {
		return nil, false
	}
	switch x := v.(type) {
	case *ssa.Const:
		return ex.constVal(x), true
	case *ssa.Global:
		return GlobalAddr{x}, true
	case *ssa.Parameter, *ssa.FreeVar:
		r, ok := fr.regs[v]
		return r, ok
	case *ssa.Alloc:
		if fr.direct[x] {
			return LocalAddr{x}, true
		}
		r, ok := fr.regs[v]
		return r, ok
	case *ssa.UnOp:
		if x.Op.String() != "*" {
			return nil, false
		}
		addr, ok := fr.evalInv(x.X, in, ms, depth+1)
		if !ok {
			return nil, false
		}
		switch a := addr.(type) {
		case LocalAddr:
			if ms.locals[a.A] {
				return nil, false
			}
			cur, ok := in.locals[a.A]
			return cur, ok
		case FieldAddrV:
			if _, mod := ms.heaps[ex.fieldHeapName(a.Fld)]; mod || ms.all {
				return nil, false
			}
			if _, scalar := ex.cx.sortOf(a.Fld.Type()); !scalar {
				return nil, false
			}
			return ex.loadField(in, a.Obj, a.Fld), true
		}
		return nil, false
	case *ssa.FieldAddr:
		base, ok := fr.evalInv(x.X, in, ms, depth+1)
		if !ok {
			return nil, false
		}
		stt := x.X.Type().Underlying().(*types.Pointer).Elem().Underlying().(*types.Struct)
		obj, ok := ex.materialize(base)
		if !ok {
			return nil, false
		}
		return FieldAddrV{Obj: obj, Fld: stt.Field(x.Field)}, true
	case *ssa.Slice:
		// the backing array is that of the operand
		b, ok := fr.evalInv(x.X, in, ms, depth+1)
		if !ok {
			return nil, false
		}
		if _, isSl := x.X.Type().Underlying().(*types.Slice); isSl {
			return b, true
		}
		// slice of *array: base is the array address
		ref, ok := ex.materialize(b)
		if !ok {
			return nil, false
		}
		z := ex.izero()
		return Sc{app(SSlice, "mkslice", ref, z, z, z)}, true
	}
	// registers defined before the loop (dominating) keep their value
	if r, ok := fr.regs[v]; ok {
		if ins, isIns := v.(ssa.Instruction); isIns && ms.region != nil && !ms.region[ins.Block()] {
			return r, true
		}
	}
	return nil, false
}

// siteTargets: the references a known write site may modify in heap `name`.
func (fr *Frame) siteTargets(name string, site modSite, in *State, ms *modSet) ([]Term, bool) {
	ex := fr.ex
	if site.fc == nil {
		v, ok := fr.evalInv(site.base, in, ms, 0)
		if !ok {
			return nil, false
		}
		switch {
		case len(name) > 2 && name[:2] == "A!":
			switch t := site.base.Type().Underlying().(type) {
			case *types.Slice:
				return []Term{app(SRef, "sarr", v.(Sc).T)}, true
			case *types.Pointer:
				_ = t
				ref, ok := ex.materialize(v)
				return []Term{ref}, ok
			}
			return nil, false
		default:
			ref, ok := ex.materialize(v)
			if !ok {
				return nil, false
			}
			return []Term{ref}, true
		}
	}
	// contract modifies item, evaluated in the loop-entry state
	env := ex.specEnv(nil, in, in)
	for i, n := range site.names {
		if i >= len(site.args) {
			break
		}
		v, ok := fr.evalInv(site.args[i], in, ms, 0)
		if !ok {
			// only needed if the item mentions it
			continue
		}
		env.vars[n] = SVal{V: v, T: site.args[i].Type()}
	}
	allowed := map[string][]Term{}
	elemBases := map[string][]Term{}
	whole := map[string]bool{}
	nUnsup := len(ex.cx.unsupported)
	ex.readLog = map[string]bool{}
	ex.lvalueTargets(env, site.item, allowed, elemBases, whole)
	reads := ex.readLog
	ex.readLog = nil
	if len(ex.cx.unsupported) != nUnsup {
		// evaluation failed (e.g. an argument was not invariant): not an error here
		ex.cx.unsupported = ex.cx.unsupported[:nUnsup]
		return nil, false
	}
	for h := range reads {
		if _, mod := ms.heaps[h]; mod || ms.all {
			return nil, false
		}
	}
	if len(elemBases[name]) > 0 || whole[name] {
		return nil, false
	}
	return allowed[name], true
}

// enterLoop: assert the invariant on entry, havoc the loop's modified set,
// assume the invariant.
func (fr *Frame) enterLoop(head *ssa.BasicBlock, ord int, in *State) *State {
	ex := fr.ex
	var invs []*Clause
	var dec *Clause
	if (fr.isTop || fr.adoptsLoops) && ex.fc != nil {
		invs = ex.fc.LoopInv[ord]
		dec = ex.fc.LoopDec[ord]
	}
	lc := &loopCtx{head: head, ord: ord, entry: in.clone()}
	if fr.loopCtxs == nil {
		fr.loopCtxs = map[*ssa.BasicBlock]*loopCtx{}
	}
	fr.loopCtxs[head] = lc
	// 1. invariant holds on entry
	for _, cl := range invs {
		mk := func() *SpecEnv {
			env := ex.specEnv(fr, in, ex.entry)
			env.loopEntry = in
			env.loopHead = head
			return env
		}
		g, sk := mk().evalGoalSkolem(cl.Expr)
		ex.instantiateHyps(sk)
		ex.oblige("inv-init", fmt.Sprintf("loop%d%s", ord, labelSuffix(cl)), in, g, head.Instrs[0].Pos(), cl.Props)
		ex.assumeUniversal(in, sk, mk, cl.Expr)
	}
	// 2. havoc
	ms := newModSet()
	ms.region = fr.loops.body[head]
	ex.scanMods(fr.fn, fr.loops.body[head], ms, 0)
	st := in.clone()
	for a := range ms.locals {
		if _, ok := st.locals[a]; ok {
			et := a.Type().Underlying().(*types.Pointer).Elem()
			st.locals[a] = ex.havocVal("lp_"+a.Comment, et)
		}
	}
	if ms.all || ms.maps {
		for n, s := range ex.cx.heapSorts {
			if ms.all || isMapHeap(n) {
				ms.addCoarse(n, s)
			}
		}
	}
	hasDeclared := (fr.isTop || fr.adoptsLoops) && ex.fc != nil && len(ex.fc.LoopMod[ord]) > 0
	for srt := range ms.ptrSorts {
		if hasDeclared {
			break // the declared frame is checked at the back edges instead
		}
		for n, s := range ex.cx.heapSorts {
			if len(n) > 2 && n[:2] == "F!" && elemSortOf(s) == srt {
				ms.addCoarse(n, s)
			}
		}
	}
	apIn := ex.varOf(in, "allocptr", SInt)
	var declared *loopFrame
	if (fr.isTop || fr.adoptsLoops) && ex.fc != nil && len(ex.fc.LoopMod[ord]) > 0 {
		declared = &loopFrame{allowed: map[string][]Term{}, elemBases: map[string][]Term{}, whole: map[string]bool{}}
		env := ex.specEnv(fr, in, ex.entry)
		env.loopEntry = in
		env.loopHead = head
		for _, m := range ex.fc.LoopMod[ord] {
			ex.lvalueTargets(env, m, declared.allowed, declared.elemBases, declared.whole)
		}
		lc.frame = declared
		// every declared heap is havoced at its targets, whether or not the
		// scan of the body found a write to it
		for n := range declared.allowed {
			if _, ok := ms.heaps[n]; !ok {
				if srt, ok := ex.cx.heapSorts[n]; ok {
					ms.heaps[n] = srt
				}
			}
		}
		for n := range declared.elemBases {
			if _, ok := ms.heaps[n]; !ok {
				if srt, ok := ex.cx.heapSorts[n]; ok {
					ms.heaps[n] = srt
				}
			}
		}
		for n := range declared.whole {
			if _, ok := ms.heaps[n]; !ok {
				if srt, ok := ex.cx.heapSorts[n]; ok {
					ms.heaps[n] = srt
				}
			}
		}
	}
	for _, n := range sortedKeys(ms.heaps) {
		s := ms.heaps[n]
		ex.cx.heapSorts[n] = s
		if declared != nil {
			// declared loop frame: only the named locations (and objects allocated
			// inside the loop) may differ from the entry state; checked at back edges
			h := ex.heap(in, n, s)
			if declared.whole[n] {
				st.heaps[n] = ex.freshHeap("lh_", n, s)
				continue
			}
			for _, t := range declared.allowed[n] {
				h = store(h, t, ex.cx.fresh("lt_"+n, elemSortOf(s)))
			}
			if ms.all || ms.freshW[n] || len(declared.elemBases[n]) > 0 {
				nh := ex.freshHeap("lf_", n, s)
				cond := ex.refOldStrict(Term{"r!l", SRef}, apIn)
				for _, b := range declared.elemBases[n] {
					cond = and(cond, not(elemMatch(Term{"r!l", SRef}, b)))
				}
				ex.cx.assume(Term{fmt.Sprintf("(forall ((r!l Ref)) (! (=> %s (= (select %s r!l) (select %s r!l))) :pattern ((select %s r!l))))",
					cond.S, nh.S, h.S, nh.S), SBool})
				h = nh
			}
			st.heaps[n] = ex.cx.name("h", h)
			continue
		}
		if ms.all || ms.coarse[n] {
			st.heaps[n] = ex.freshHeap("lh_", n, s)
			continue
		}
		h := ex.heap(in, n, s)
		precise := true
		var targets []Term
		seen := map[string]bool{}
		for _, site := range ms.sites[n] {
			ts, ok := fr.siteTargets(n, site, in, ms)
			if !ok {
				precise = false
				break
			}
			for _, t := range ts {
				if !seen[t.S] {
					seen[t.S] = true
					targets = append(targets, t)
				}
			}
		}
		if !precise {
			st.heaps[n] = ex.freshHeap("lh_", n, s)
			continue
		}
		for _, t := range targets {
			h = store(h, t, ex.cx.fresh("lt_"+n, elemSortOf(s)))
		}
		if ms.freshW[n] {
			// objects allocated inside the loop may differ; older ones keep h
			nh := ex.freshHeap("lf_", n, s)
			ex.cx.assume(Term{fmt.Sprintf("(forall ((r!l Ref)) (! (=> %s (= (select %s r!l) (select %s r!l))) :pattern ((select %s r!l))))",
				ex.refOldStrict(Term{"r!l", SRef}, apIn).S, nh.S, h.S, nh.S), SBool})
			h = nh
		}
		st.heaps[n] = ex.cx.name("h", h)
	}
	if ms.all {
		ex.cx.note("loop %d of %s: unknown effects, every heap havoced", ord, fr.fn.Name())
	}
	if ms.alloc || ms.all {
		nap := ex.cx.fresh("allocptr", SInt)
		ex.cx.assume(app(SBool, ">=", nap, apIn))
		st.vars["allocptr"] = nap
	}
	for n, t := range st.vars {
		if n != "allocptr" && (ms.all || strings.HasPrefix(n, "gl!")) {
			// history variables may be updated by any call of the body: havoc, invariants restate them
			st.vars[n] = ex.cx.fresh("lv_"+n, t.Sort)
		}
	}
	// 3. assume the invariant
	for _, cl := range invs {
		env := ex.specEnv(fr, st, ex.entry)
		env.loopEntry = in
		env.loopHead = head
		g := env.evalBool(cl.Expr)
		ex.cx.assume(implies(st.reach, g))
		// keep it available for instantiation at goal constants
		cl, headSt, inSt := cl, st.clone(), in
		ex.qhyps = append(ex.qhyps, qhyp{guard: st.reach, inst: func(sk map[string]SVal) (Term, bool) {
			henv := ex.specEnv(fr, headSt, ex.entry)
			henv.loopEntry = inSt
			henv.loopHead = head
			nUnsup := len(ex.cx.unsupported)
			t := henv.evalInstance(cl.Expr, sk)
			if len(ex.cx.unsupported) != nUnsup {
				ex.cx.unsupported = ex.cx.unsupported[:nUnsup]
				return Term{}, false
			}
			return t, true
		}})
	}
	if (fr.isTop || fr.adoptsLoops) && ex.fc != nil {
		for _, cl := range ex.fc.LoopAssume[ord] {
			env := ex.specEnv(fr, st, ex.entry)
			env.loopEntry = in
		env.loopHead = head
			ex.cx.assume(implies(st.reach, env.evalBool(cl.Expr)))
			ex.cx.note("assumed without proof at loop %d of %s: %s", ord, ex.cx.fnName, cl.Src)
		}
	}
	if dec != nil {
		env := ex.specEnv(fr, st, ex.entry)
		env.loopEntry = in
		env.loopHead = head
		lc.dec0 = ex.cx.name("dec", env.evalInt(dec.Expr))
		lc.hasDec = true
	}
	lc.headSt = st.clone()
	lc.apIn = apIn
	return st
}

func isMapHeap(n string) bool { return len(n) > 2 && (n[:3] == "MH!" || n[:3] == "MV!") }

func labelSuffix(cl *Clause) string {
	if cl.Label != "" {
		return ":" + cl.Label
	}
	return fmt.Sprintf(":L%d", cl.Line)
}

// closeLoop: at a back edge the invariant must hold again and the variant
// must have decreased.
func (fr *Frame) closeLoop(head *ssa.BasicBlock, ord int, st *State, from *ssa.BasicBlock) {
	ex := fr.ex
	lc := fr.loopCtxs[head]
	if lc == nil {
		return
	}
	var invs []*Clause
	var dec *Clause
	if (fr.isTop || fr.adoptsLoops) && ex.fc != nil {
		invs = ex.fc.LoopInv[ord]
		dec = ex.fc.LoopDec[ord]
	}
	pos := from.Instrs[len(from.Instrs)-1].Pos()
	if !pos.IsValid() {
		pos = head.Instrs[0].Pos()
	}
	for _, cl := range invs {
		mk := func() *SpecEnv {
			env := ex.specEnv(fr, st, ex.entry)
			env.loopEntry = lc.entry
			env.loopHead = head
			return env
		}
		g, sk := mk().evalGoalSkolem(cl.Expr)
		ex.instantiateHyps(sk)
		ex.oblige("inv-pres", fmt.Sprintf("loop%d%s", ord, labelSuffix(cl)), st, g, pos, cl.Props)
		ex.assumeUniversal(st, sk, mk, cl.Expr)
	}
	if lc.frame != nil {
		for _, n := range sortedKeys(st.heaps) {
			ft := st.heaps[n]
			ht := ex.heap(lc.headSt, n, ft.Sort)
			if ft.S == ht.S || lc.frame.whole[n] || newFieldHeap(n) {
				continue
			}
			r := Term{"r!f", SRef}
			cond := ex.refOldStrict(r, lc.apIn)
			for _, a := range lc.frame.allowed[n] {
				cond = and(cond, not(eq(r, a)))
			}
			for _, b := range lc.frame.elemBases[n] {
				cond = and(cond, not(elemMatch(r, b)))
			}
			goal := Term{fmt.Sprintf("(forall ((r!f Ref)) (=> %s (= (select %s r!f) (select %s r!f))))", cond.S, ft.S, ht.S), SBool}
			o := ex.cx.oblige("loop-frame", fmt.Sprintf("loop%d:%s", ord, n), st.reach, goal, ex.pos(pos), nil)
			o.Name = fmt.Sprintf("%s#loop-frame:loop%d:%s", ex.cx.fnName, ord, n)
		}
	}
	if dec != nil && lc.hasDec {
		env := ex.specEnv(fr, st, ex.entry)
		env.loopEntry = lc.entry
		env.loopHead = head
		d := env.evalInt(dec.Expr)
		var g Term
		if ex.cx.mode == "bv" {
			g = and(app(SBool, "bvslt", d, lc.dec0), app(SBool, "bvsge", lc.dec0, bvLit(bigZero, 64)))
		} else {
			g = and(app(SBool, "<", d, lc.dec0), app(SBool, "<=", intLit(0), lc.dec0))
		}
		ex.oblige("decreases", fmt.Sprintf("loop%d", ord), st, g, pos, dec.Props)
	}
}

func fnHasDefers(fn *ssa.Function) bool {
	for _, b := range fn.Blocks {
		for _, ins := range b.Instrs {
			if _, ok := ins.(*ssa.Defer); ok {
				return true
			}
		}
	}
	return false
}

// exitLoop: an edge leaves the body of loop `head`: the declared exit
// invariants (facts the code after the loop relies on) are proved in the state
// of that edge and then assumed in universal form.
func (fr *Frame) exitLoop(head *ssa.BasicBlock, ord int, st *State, from *ssa.BasicBlock) {
	ex := fr.ex
	if !(fr.isTop || fr.adoptsLoops) || ex.fc == nil {
		return
	}
	lc := fr.loopCtxs[head]
	if lc == nil {
		return
	}
	pos := from.Instrs[len(from.Instrs)-1].Pos()
	if !pos.IsValid() {
		pos = head.Instrs[0].Pos()
	}
	for _, cl := range ex.fc.LoopExit[ord] {
		mk := func() *SpecEnv {
			env := ex.specEnv(fr, st, ex.entry)
			env.loopEntry = lc.entry
			env.loopHead = head
			return env
		}
		g, sk := mk().evalGoalSkolem(cl.Expr)
		ex.instantiateHyps(sk)
		ex.oblige("inv-exit", fmt.Sprintf("loop%d%s", ord, labelSuffix(cl)), st, g, pos, cl.Props)
		ex.assumeUniversal(st, sk, mk, cl.Expr)
	}
}
