#!/bin/sh
# runs every claimed check (quick by default) sequentially; prints one line each
tier=${1:-quick}
cd /verif
for p in $(python3 -c "import json;print(' '.join(c['property_id'] for c in json.load(open('MANIFEST.json'))['checks']))"); do
  s=$(date +%s)
  out=$(./check $p $tier 2>&1); rc=$?
  e=$(( $(date +%s) - s ))
  echo "$p rc=$rc ${e}s $(echo "$out" | tail -1 | cut -c1-160)"
  echo "$out" | grep -E "^(VIOLATION|KNOWN-FINDING)" | cut -c1-220
done
