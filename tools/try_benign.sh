#!/bin/sh
# usage: tools/try_benign.sh <patch.diff> <props...> : a behaviour-preserving change must NOT raise an alarm.
# The patch is applied to a scratch clone of /repo; the checks run against it with a scratch copy of /verif.
patch=$(realpath "$1"); shift
V=/verif
T=${TMPDIR:-/tmp}/kvc-benign-$$
mkdir -p $T/verif && trap 'rm -rf $T' EXIT
for d in contracts baseline monitor bin golden; do cp -r $V/$d $T/verif/ 2>/dev/null; done
cp $V/props.json $V/known_findings.json $V/MANIFEST.json $T/verif/
git clone -q --shared /repo $T/repo || exit 2
(cd $T/repo && git apply $patch) || { echo "patch does not apply"; exit 2; }
rc=0
for p in "$@"; do
  out=$(KVC_REPO=$T/repo KVC_VERIF=$T/verif $T/verif/bin/kvc check $p quick 2>&1); r=$?
  n=$(echo "$out" | grep -c "^VIOLATION")
  echo "$p rc=$r violations=$n $(echo "$out" | tail -1 | cut -c1-120)"
  echo "$out" | grep "^VIOLATION" | sed 's/replay=[^ ]* //' | cut -c1-260 | head -4
  [ $r -ne 0 ] && rc=1
done
exit $rc
