#!/bin/sh
# Regenerates /verif/golden from the REFERENCE snapshot (never from the repaired tree):
# 76efab5 is checked out into a scratch clone outside /repo and /verif, the generator is injected
# with an overlay, the clone is removed afterwards.
REF=${1:-76efab5}
V=/verif
T=${TMPDIR:-/tmp}/kvc-golden-$$
git clone -q --shared /repo $T/repo 2>/dev/null || { mkdir -p $T && git clone -q --shared /repo $T/repo; } || exit 2
trap 'rm -rf $T' EXIT
(cd $T/repo && git checkout -q $REF) || exit 2
sed -e "/^\/\/KVC-GEN/r $V/monitor/gen_mon.go.txt" $V/monitor/golden_gen_test.go.txt > $T/gen_test.go
echo "{\"Replace\":{\"$T/repo/v2/io/kvc_golden_test.go\":\"$T/gen_test.go\"}}" > $T/ov.json
mkdir -p $V/golden && rm -f $V/golden/*.knz
cd $T/repo/v2 && KVC_MON_GOLDEN=$V/golden GOFLAGS=-mod=mod GOPROXY=off go test -overlay $T/ov.json -vet=off -count=1 -v -run TestKvcGoldenGenerate ./io/ 2>&1 | grep -v "^=== RUN" | tail -15
ls $V/golden | wc -l; du -sh $V/golden
