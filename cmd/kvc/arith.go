package main

import (
	"fmt"
	"go/token"
	"go/types"
	"math/big"
	"strings"
)

// litValue parses an Int literal term.
func litValue(t Term) (*big.Int, bool) {
	s := t.S
	neg := false
	if strings.HasPrefix(s, "(- ") && strings.HasSuffix(s, ")") {
		neg = true
		s = s[3 : len(s)-1]
	}
	if !isNum(s) {
		return nil, false
	}
	n, ok := new(big.Int).SetString(s, 10)
	if !ok {
		return nil, false
	}
	if neg {
		n.Neg(n)
	}
	return n, true
}

func isPow2(n *big.Int) (int, bool) {
	if n.Sign() <= 0 {
		return 0, false
	}
	k := n.BitLen() - 1
	if new(big.Int).Lsh(big.NewInt(1), uint(k)).Cmp(n) == 0 {
		return k, true
	}
	return 0, false
}

// wrapGeneral: exact reduction for results that may be many moduli away.
func (c *Ctx) wrapGeneral(v Term, t types.Type) Term {
	v = c.name("w", v)
	return ite(c.inRange(v, t), v, c.wrap(v, t, false))
}

// tdiv / trem: Go's truncated division on mathematical integers.
func tdiv(a, b Term) Term {
	if c, ok := litValue(b); ok && c.Sign() > 0 {
		return ite(app(SBool, ">=", a, intLit(0)), app(SInt, "div", a, b), app(SInt, "-", app(SInt, "div", app(SInt, "-", a), b)))
	}
	neg := func(x Term) Term { return app(SInt, "-", x) }
	ge0 := func(x Term) Term { return app(SBool, ">=", x, intLit(0)) }
	gt0 := func(x Term) Term { return app(SBool, ">", x, intLit(0)) }
	d := func(x, y Term) Term { return app(SInt, "div", x, y) }
	return ite(ge0(a),
		ite(gt0(b), d(a, b), neg(d(a, neg(b)))),
		ite(gt0(b), neg(d(neg(a), b)), d(neg(a), neg(b))))
}

func trem(a, b Term) Term {
	if c, ok := litValue(b); ok && c.Sign() > 0 {
		return ite(app(SBool, ">=", a, intLit(0)), app(SInt, "mod", a, b), app(SInt, "-", app(SInt, "mod", app(SInt, "-", a), b)))
	}
	// a - b*tdiv(a,b); for a >= 0, b > 0 this is mod
	return ite(and(app(SBool, ">=", a, intLit(0)), app(SBool, ">", b, intLit(0))),
		app(SInt, "mod", a, b),
		app(SInt, "-", a, app(SInt, "*", b, tdiv(a, b))))
}

func (fr *Frame) binop(st *State, op token.Token, av, bv Val, ta, tb, tr types.Type, p token.Pos) Val {
	ex := fr.ex
	// comparisons of aggregates / addresses
	a, aok := av.(Sc)
	b, bok := bv.(Sc)
	if !aok || !bok {
		if op == token.EQL || op == token.NEQ {
			r := ex.valEq(av, bv)
			if op == token.NEQ {
				r = not(r)
			}
			return Sc{r}
		}
		ex.cx.unsup("binary %s on non-scalars", op)
		return ex.havocVal("binop", tr)
	}
	x, y := a.T, b.T
	switch op {
	case token.EQL:
		return Sc{eq(x, y)}
	case token.NEQ:
		return Sc{not(eq(x, y))}
	}
	if x.Sort == SInt && isInteger(ta) {
		return Sc{ex.cx.name("v", fr.intBinop(st, op, x, y, ta, tb, tr, p))}
	}
	if _, ok := isBV(x.Sort); ok {
		return Sc{ex.cx.name("v", fr.bvBinop(st, op, x, y, ta, tb, tr, p))}
	}
	if x.Sort == ex.cx.strSort() && isStringType(ta) {
		return Sc{ex.strBinop(op, x, y)}
	}
	if x.Sort == SBool {
		switch op {
		case token.AND, token.LAND:
			return Sc{and(x, y)}
		case token.OR, token.LOR:
			return Sc{or(x, y)}
		}
	}
	if x.Sort == SFloat {
		name := "float$" + mangle(op.String())
		rs := SFloat
		switch op {
		case token.LSS, token.LEQ, token.GTR, token.GEQ:
			rs = SBool
		}
		ex.cx.declFun(name, []string{SFloat, SFloat}, rs)
		return Sc{app(rs, name, x, y)}
	}
	ex.cx.unsup("binary %s on %s", op, ta)
	return ex.havocVal("binop", tr)
}

func isStringType(t types.Type) bool {
	b, ok := t.Underlying().(*types.Basic)
	return ok && b.Info()&types.IsString != 0
}

func (ex *Exec) strBinop(op token.Token, x, y Term) Term {
	if ex.cx.strMode {
		switch op {
		case token.ADD:
			return app(SStr, "str.++", x, y)
		case token.LSS:
			return app(SBool, "str.<", x, y)
		case token.LEQ:
			return app(SBool, "str.<=", x, y)
		case token.GTR:
			return app(SBool, "str.<", y, x)
		case token.GEQ:
			return app(SBool, "str.<=", y, x)
		}
	}
	switch op {
	case token.ADD:
		ex.cx.declFun("str$cat", []string{SInt, SInt}, SInt)
		return app(SInt, "str$cat", x, y)
	default:
		ex.cx.declFun("str$lt", []string{SInt, SInt}, SBool)
		switch op {
		case token.LSS:
			return app(SBool, "str$lt", x, y)
		case token.GTR:
			return app(SBool, "str$lt", y, x)
		case token.LEQ:
			return not(app(SBool, "str$lt", y, x))
		case token.GEQ:
			return not(app(SBool, "str$lt", x, y))
		}
	}
	return tFalse
}

func (ex *Exec) valEq(a, b Val) Term {
	switch x := a.(type) {
	case Sc:
		if y, ok := b.(Sc); ok {
			return eq(x.T, y.T)
		}
		if t, ok := ex.materialize(b); ok {
			return eq(x.T, t)
		}
	case Agg:
		if y, ok := b.(Agg); ok && len(x.F) == len(y.F) {
			var cs []Term
			for i := range x.F {
				cs = append(cs, ex.valEq(x.F[i], y.F[i]))
			}
			return and(cs...)
		}
	default:
		ta, ok1 := ex.materialize(a)
		tb, ok2 := ex.materialize(b)
		if ok1 && ok2 {
			return eq(ta, tb)
		}
	}
	ex.cx.unsup("comparison of %T and %T", a, b)
	return ex.cx.fresh("cmp", SBool)
}

func (fr *Frame) intBinop(st *State, op token.Token, x, y Term, ta, tb, tr types.Type, p token.Pos) Term {
	ex := fr.ex
	cx := ex.cx
	uf := func(name string, facts func(r Term) Term) Term {
		w := intWidth(ta.Underlying().(*types.Basic))
		sign := "s"
		if isUnsigned(ta) {
			sign = "u"
		}
		fn := fmt.Sprintf("%s$%s%d", name, sign, w)
		cx.declFun(fn, []string{SInt, SInt}, SInt)
		r := cx.name("uf", app(SInt, fn, x, y))
		cx.assume(cx.inRange(r, tr))
		if facts != nil {
			cx.assume(facts(r))
		}
		cx.note("bit operation %s on mathematical integers is uninterpreted (range facts only) in %s", name, cx.fnName)
		return r
	}
	nonneg := func(t Term) Term { return app(SBool, "<=", intLit(0), t) }
	switch op {
	case token.ADD:
		return cx.wrap(app(SInt, "+", x, y), tr, true)
	case token.SUB:
		return cx.wrap(app(SInt, "-", x, y), tr, true)
	case token.MUL:
		return cx.wrapGeneral(cx.mul(x, y), tr)
	case token.QUO:
		fr.mustHold(st, "div0", not(eq(y, intLit(0))), p)
		fr.divFacts(x, y)
		if isUnsigned(ta) {
			return app(SInt, "div", x, y)
		}
		return cx.wrap(tdiv(x, y), tr, true)
	case token.REM:
		fr.mustHold(st, "div0", not(eq(y, intLit(0))), p)
		fr.divFacts(x, y)
		if isUnsigned(ta) {
			return app(SInt, "mod", x, y)
		}
		return trem(x, y)
	case token.SHL:
		if k, ok := litValue(y); ok {
			if k.Cmp(big.NewInt(int64(intWidth(ta.Underlying().(*types.Basic))))) >= 0 {
				return intLit(0)
			}
			return cx.wrapGeneral(app(SInt, "*", x, bigLit(pow2(int(k.Int64())))), tr)
		}
		if xv, ok := litValue(x); ok && xv.Cmp(big.NewInt(1)) == 0 {
			// 1 << y : pow2 function
			cx.declFun("pow2$", []string{SInt}, SInt)
			w := int64(intWidth(ta.Underlying().(*types.Basic)))
			lim := w
			if !isUnsigned(ta) {
				lim = w - 1
			}
			r := ite(app(SBool, "<", y, intLit(lim)), app(SInt, "pow2$", y), intLit(0))
			cx.assume(Term{"(and (= (pow2$ 0) 1) (forall ((k!p Int)) (! (=> (> k!p 0) (= (pow2$ k!p) (* 2 (pow2$ (- k!p 1))))) :pattern ((pow2$ k!p)))))", SBool})
			if lim == w-1 && w == 64 {
				// 1<<63 as int wraps to MinInt64
				r = ite(eq(y, intLit(63)), bigLit(new(big.Int).Neg(pow2(63))), r)
			}
			return r
		}
		if ex.fc != nil && ex.fc.Opts["bitops"] == "cases" {
			// opt bitops cases: one exact fact per shift amount (x << k == wrap(x * 2^k))
			w := intWidth(ta.Underlying().(*types.Basic))
			return uf("shl", func(r Term) Term {
				cs := []Term{implies(app(SBool, ">=", y, intLit(int64(w))), eq(r, intLit(0)))}
				for k := 0; k < w; k++ {
					cs = append(cs, implies(eq(y, intLit(int64(k))), eq(r, cx.wrapGeneral(app(SInt, "*", x, bigLit(pow2(k))), tr))))
				}
				return and(cs...)
			})
		}
		return uf("shl", nil)
	case token.SHR:
		if k, ok := litValue(y); ok {
			w := intWidth(ta.Underlying().(*types.Basic))
			if k.Cmp(big.NewInt(int64(w))) >= 0 {
				if isUnsigned(ta) {
					return intLit(0)
				}
				return ite(app(SBool, "<", x, intLit(0)), intLit(-1), intLit(0))
			}
			return app(SInt, "div", x, bigLit(pow2(int(k.Int64()))))
		}
		return uf("shr", func(r Term) Term {
			return and(implies(nonneg(x), and(nonneg(r), app(SBool, "<=", r, x))), implies(eq(y, intLit(0)), eq(r, x)))
		})
	case token.AND:
		if _, ok := litValue(x); ok {
			x, y = y, x
		}
		if m, ok := litValue(y); ok {
			if m.Sign() >= 0 {
				if k, ok := isPow2(new(big.Int).Add(m, big.NewInt(1))); ok {
					return app(SInt, "mod", x, bigLit(pow2(k)))
				}
				if m.Sign() == 0 {
					return intLit(0)
				}
			} else if k, ok := isPow2(new(big.Int).Neg(m)); ok {
				return app(SInt, "-", x, app(SInt, "mod", x, bigLit(pow2(k))))
			}
		}
		return uf("and", func(r Term) Term {
			return and(implies(nonneg(x), and(nonneg(r), app(SBool, "<=", r, x))), implies(nonneg(y), and(nonneg(r), app(SBool, "<=", r, y))))
		})
	case token.OR:
		// c | v with a non-negative literal c whose lowest set bit is 2^k and
		// 0 <= v < 2^k: the operands share no bit, the result is c + v (exact).
		disjoint := func(r Term) Term { return Term{"true", SBool} }
		for _, pr := range [][2]Term{{x, y}, {y, x}} {
			if c, ok := litValue(pr[0]); ok && c.Sign() > 0 {
				k := c.TrailingZeroBits()
				v := pr[1]
				cc := c
				disjoint = func(r Term) Term {
					return implies(and(nonneg(v), app(SBool, "<", v, bigLit(pow2(int(k))))), eq(r, app(SInt, "+", bigLit(cc), v)))
				}
				break
			}
		}
		if _, okx := litValue(x); !okx && ex.fc != nil && ex.fc.Opts["bitops"] == "cases" {
			if _, oky := litValue(y); !oky {
				// opt bitops cases: a < 2^k and b a multiple of 2^k share no bit
				w := intWidth(ta.Underlying().(*types.Basic))
				xx, yy := x, y
				disjoint = func(r Term) Term {
					var cs []Term
					for k := 0; k < w; k++ {
						for _, pr := range [][2]Term{{xx, yy}, {yy, xx}} {
							cs = append(cs, implies(and(nonneg(pr[0]), app(SBool, "<", pr[0], bigLit(pow2(k))), nonneg(pr[1]), eq(app(SInt, "mod", pr[1], bigLit(pow2(k))), intLit(0))),
								eq(r, app(SInt, "+", pr[0], pr[1]))))
						}
					}
					return and(cs...)
				}
			}
		}
		return uf("or", func(r Term) Term {
			return and(disjoint(r), implies(and(nonneg(x), nonneg(y)), and(app(SBool, ">=", r, x), app(SBool, ">=", r, y), app(SBool, "<=", r, app(SInt, "+", x, y)))))
		})
	case token.XOR:
		return uf("xor", func(r Term) Term {
			return implies(and(nonneg(x), nonneg(y)), and(nonneg(r), app(SBool, "<=", r, app(SInt, "+", x, y))))
		})
	case token.AND_NOT:
		return uf("andnot", func(r Term) Term {
			return implies(nonneg(x), and(nonneg(r), app(SBool, "<=", r, x)))
		})
	case token.LSS:
		return app(SBool, "<", x, y)
	case token.LEQ:
		return app(SBool, "<=", x, y)
	case token.GTR:
		return app(SBool, ">", x, y)
	case token.GEQ:
		return app(SBool, ">=", x, y)
	}
	cx.unsup("int binary %s", op)
	return cx.fresh("binop", SInt)
}

func (fr *Frame) bvBinop(st *State, op token.Token, x, y Term, ta, tb, tr types.Type, p token.Pos) Term {
	ex := fr.ex
	w, _ := isBV(x.Sort)
	uns := isUnsigned(ta)
	pick := func(u, s string) string {
		if uns {
			return u
		}
		return s
	}
	shiftAmt := func() Term {
		wy, _ := isBV(y.Sort)
		switch {
		case wy == w:
			return y
		case wy < w:
			return app(x.Sort, fmt.Sprintf("(_ zero_extend %d)", w-wy), y)
		default:
			// saturate: amounts >= w all behave like w
			lim := bvLit(big.NewInt(int64(w)), wy)
			sat := ite(app(SBool, "bvuge", y, lim), lim, y)
			return app(x.Sort, fmt.Sprintf("(_ extract %d 0)", w-1), sat)
		}
	}
	switch op {
	case token.ADD:
		return app(x.Sort, "bvadd", x, y)
	case token.SUB:
		return app(x.Sort, "bvsub", x, y)
	case token.MUL:
		return app(x.Sort, "bvmul", x, y)
	case token.QUO:
		fr.mustHold(st, "div0", not(eq(y, bvLit(big.NewInt(0), w))), p)
		return app(x.Sort, pick("bvudiv", "bvsdiv"), x, y)
	case token.REM:
		fr.mustHold(st, "div0", not(eq(y, bvLit(big.NewInt(0), w))), p)
		return app(x.Sort, pick("bvurem", "bvsrem"), x, y)
	case token.AND:
		return app(x.Sort, "bvand", x, y)
	case token.OR:
		return app(x.Sort, "bvor", x, y)
	case token.XOR:
		return app(x.Sort, "bvxor", x, y)
	case token.AND_NOT:
		return app(x.Sort, "bvand", x, app(x.Sort, "bvnot", y))
	case token.SHL:
		if !isUnsigned(tb) {
			wy, _ := isBV(y.Sort)
			fr.mustHold(st, "negshift", app(SBool, "bvsge", y, bvLit(big.NewInt(0), wy)), p)
		}
		return app(x.Sort, "bvshl", x, shiftAmt())
	case token.SHR:
		if !isUnsigned(tb) {
			wy, _ := isBV(y.Sort)
			fr.mustHold(st, "negshift", app(SBool, "bvsge", y, bvLit(big.NewInt(0), wy)), p)
		}
		return app(x.Sort, pick("bvlshr", "bvashr"), x, shiftAmt())
	case token.LSS:
		return app(SBool, pick("bvult", "bvslt"), x, y)
	case token.LEQ:
		return app(SBool, pick("bvule", "bvsle"), x, y)
	case token.GTR:
		return app(SBool, pick("bvugt", "bvsgt"), x, y)
	case token.GEQ:
		return app(SBool, pick("bvuge", "bvsge"), x, y)
	}
	ex.cx.unsup("bv binary %s", op)
	return ex.cx.fresh("binop", x.Sort)
}

// divFacts (lemma L3): for a symbolic positive divisor the defining facts of
// integer division are stated explicitly (they are consequences of the SMT
// semantics of div/mod; stating them helps the nonlinear reasoning).
func (fr *Frame) divFacts(x, y Term) {
	if _, lit := litValue(y); lit {
		return
	}
	cx := fr.ex.cx
	q := cx.name("q", app(SInt, "div", x, y))
	r := cx.name("m", app(SInt, "mod", x, y))
	pos := and(app(SBool, ">", y, intLit(0)))
	cx.assume(implies(pos, and(
		eq(x, app(SInt, "+", cx.mul(y, q), r)),
		app(SBool, "<=", intLit(0), r), app(SBool, "<", r, y),
		implies(app(SBool, ">=", x, intLit(0)), app(SBool, ">=", q, intLit(0))))))
}

// mul builds a product; for a product of two non-literal terms it adds
// tautologies that let linear arithmetic handle the usual steps:
//   a == c ==> a*b == c*b                    (c = 0,1,2, both factors)
//   for two products a*b1, a*b2 sharing a factor, with d = b2-b1:
//   d == 0,1,-1 ==> a*b2 == a*b1 + d*a ;  a >= 0 && d >= 2 ==> a*b2 >= a*b1 + 2a ; symmetric for d <= -2
func (c *Ctx) mul(a, b Term) Term {
	p := app(SInt, "*", a, b)
	if _, ok := litValue(a); ok {
		return p
	}
	if _, ok := litValue(b); ok {
		return p
	}
	if strings.Contains(a.S, "!q") || strings.Contains(b.S, "!q") {
		return p // bound variables: no ground hints
	}
	a, b = c.name("f", a), c.name("f", b)
	p = app(SInt, "*", a, b)
	key := "mulhint:" + p.S
	if c.declared[key] {
		return p
	}
	c.declared[key] = true
	var hs []Term
	for k := int64(0); k <= 2; k++ {
		hs = append(hs, implies(eq(a, intLit(k)), eq(p, app(SInt, "*", intLit(k), b))))
		hs = append(hs, implies(eq(b, intLit(k)), eq(p, app(SInt, "*", intLit(k), a))))
	}
	ge0 := func(t Term) Term { return app(SBool, ">=", t, intLit(0)) }
	hs = append(hs, implies(and(ge0(a), ge0(b)), ge0(p)))
	hs = append(hs, implies(and(app(SBool, ">=", a, intLit(1)), ge0(b)), app(SBool, ">=", p, b)))
	hs = append(hs, implies(and(app(SBool, ">=", b, intLit(1)), ge0(a)), app(SBool, ">=", p, a)))
	pair := func(f, o1, o2, p1, p2 Term) {
		d := c.name("d", app(SInt, "-", o2, o1))
		hs = append(hs,
			implies(eq(d, intLit(0)), eq(p2, p1)),
			implies(eq(d, intLit(1)), eq(p2, app(SInt, "+", p1, f))),
			implies(eq(d, intLit(-1)), eq(p2, app(SInt, "-", p1, f))),
			implies(and(ge0(f), app(SBool, ">=", d, intLit(2))), app(SBool, ">=", p2, app(SInt, "+", p1, app(SInt, "*", intLit(2), f)))),
			implies(and(ge0(f), app(SBool, "<=", d, intLit(-2))), app(SBool, "<=", p2, app(SInt, "-", p1, app(SInt, "*", intLit(2), f)))))
	}
	for _, q := range c.products {
		switch {
		case q.a.S == a.S:
			pair(a, q.b, b, q.p, p)
		case q.b.S == b.S:
			pair(b, q.a, a, q.p, p)
		case q.a.S == b.S:
			pair(b, q.b, a, q.p, p)
		case q.b.S == a.S:
			pair(a, q.a, b, q.p, p)
		}
	}
	c.products = append(c.products, product{a, b, p})
	c.assume(and(hs...))
	return p
}

type product struct{ a, b, p Term }
