package main

import (
	"fmt"
	"go/token"
	"go/types"
	"math/big"
	"sort"
	"strings"
)

// Ctx is the verification context of ONE function under contract: all SMT
// declarations, the ordered list of assumptions and the obligations.
type Ctx struct {
	mode     string // "int" or "bv"
	strMode  bool   // real SMT strings for Go strings
	decls    []string
	declared map[string]bool
	asserts  []string
	obls     []*Obligation
	n        int
	strIDs   map[string]int // interned string literals (int ids)
	typeTags map[string]int
	fieldIDs map[*types.Var]int
	fieldByID map[int]*types.Var
	heapSorts map[string]string // heap name -> sort
	notes    map[string]bool   // assumptions / unmodelled callees, for the evidence
	fnName   string
	unsupported []string
	products []product
}

type Obligation struct {
	Name    string
	Kind    string // post, pre, inv-init, inv-pres, nopanic, panics, frame, decreases, lemma, vacuity
	Label   string
	Reach   Term
	Goal    Term
	Pos     token.Position
	Props   []string
	NAssert int // number of ctx.asserts visible to this obligation
	NDecl   int
	Func    string
	ExpectSat bool // vacuity canary: must be satisfiable
	// result
	Status  string // unsat | sat | unknown | timeout | error
	Solver  string
	TimeS   float64
	Output  string
	Script  string
}

func newCtx(mode string, fnName string) *Ctx {
	termDefs = map[string]string{}
	return &Ctx{mode: mode, declared: map[string]bool{}, strIDs: map[string]int{}, typeTags: map[string]int{},
		fieldIDs: map[*types.Var]int{}, fieldByID: map[int]*types.Var{}, heapSorts: map[string]string{}, notes: map[string]bool{}, fnName: fnName}
}

func (c *Ctx) intS() string {
	if c.mode == "bv" {
		return bvSort(64)
	}
	return SInt
}

func (c *Ctx) note(format string, a ...any) { c.notes[fmt.Sprintf(format, a...)] = true }

func (c *Ctx) unsup(format string, a ...any) {
	s := fmt.Sprintf(format, a...)
	for _, u := range c.unsupported {
		if u == s {
			return
		}
	}
	c.unsupported = append(c.unsupported, s)
}

func (c *Ctx) fresh(prefix, sort string) Term {
	c.n++
	name := fmt.Sprintf("%s!%d", mangle(prefix), c.n)
	c.declConst(name, sort)
	return Term{name, sort}
}

func (c *Ctx) declConst(name, sort string) {
	if c.declared[name] {
		return
	}
	c.declared[name] = true
	c.decls = append(c.decls, fmt.Sprintf("(declare-fun %s () %s)", name, sort))
}

func (c *Ctx) declFun(name string, args []string, ret string) {
	if c.declared[name] {
		return
	}
	c.declared[name] = true
	c.decls = append(c.decls, fmt.Sprintf("(declare-fun %s (%s) %s)", name, strings.Join(args, " "), ret))
}

func (c *Ctx) assume(t Term) {
	if t.S == "true" {
		return
	}
	c.asserts = append(c.asserts, t.S)
}

// name gives a large term a name (definitional equality, always sound).
func (c *Ctx) name(prefix string, t Term) Term {
	if len(t.S) < 120 {
		return t
	}
	v := c.fresh(prefix, t.Sort)
	c.assume(eq(v, t))
	termDefs[v.S] = t.S
	return v
}

// termDefs: definitions of the constants introduced by Ctx.name (used to see
// through names when looking for store shapes). Generation is sequential.
var termDefs = map[string]string{}

func expandDef(s string) string {
	for i := 0; i < 4; i++ {
		d, ok := termDefs[s]
		if !ok {
			return s
		}
		s = d
	}
	return s
}

func (c *Ctx) oblige(kind, label string, reach, goal Term, pos token.Position, props []string) *Obligation {
	o := &Obligation{Kind: kind, Label: label, Reach: reach, Goal: goal, Pos: pos, Props: props,
		NAssert: len(c.asserts), NDecl: len(c.decls), Func: c.fnName}
	c.obls = append(c.obls, o)
	return o
}

func (c *Ctx) strID(s string) Term {
	if c.strMode {
		return Term{smtString(s), SStr}
	}
	id, ok := c.strIDs[s]
	if !ok {
		id = len(c.strIDs) + 1
		c.strIDs[s] = id
	}
	return intLit(int64(id))
}

func smtString(s string) string {
	var b strings.Builder
	b.WriteByte('"')
	for _, r := range s {
		if r == '"' {
			b.WriteString("\"\"")
		} else if r < 32 || r > 126 || r == '\\' {
			fmt.Fprintf(&b, "\\u{%x}", r)
		} else {
			b.WriteRune(r)
		}
	}
	b.WriteByte('"')
	return b.String()
}

func (c *Ctx) strSort() string {
	if c.strMode {
		return SStr
	}
	return SInt
}

func (c *Ctx) typeTag(t types.Type) Term {
	key := types.TypeString(t, nil)
	id, ok := c.typeTags[key]
	if !ok {
		id = len(c.typeTags) + 1
		c.typeTags[key] = id
	}
	return intLit(int64(id))
}

func (c *Ctx) fieldID(f *types.Var) int {
	id, ok := c.fieldIDs[f]
	if !ok {
		id = len(c.fieldIDs) + 1
		c.fieldIDs[f] = id
		c.fieldByID[id] = f
	}
	return id
}

// ---------------------------------------------------------------------
// sorts of Go types

func (c *Ctx) sortOf(t types.Type) (string, bool) {
	switch u := t.Underlying().(type) {
	case *types.Basic:
		info := u.Info()
		switch {
		case info&types.IsBoolean != 0:
			return SBool, true
		case info&types.IsInteger != 0:
			if c.mode == "bv" {
				return bvSort(intWidth(u)), true
			}
			return SInt, true
		case info&types.IsString != 0:
			return c.strSort(), true
		case info&types.IsFloat != 0, info&types.IsComplex != 0:
			return SFloat, true
		case u.Kind() == types.UnsafePointer:
			return SRef, true
		case u.Kind() == types.UntypedNil:
			return SRef, true
		}
	case *types.Pointer, *types.Map, *types.Chan, *types.Signature:
		return SRef, true
	case *types.Slice:
		return SSlice, true
	case *types.Interface:
		return SIface, true
	}
	return "", false // aggregate
}

func intWidth(b *types.Basic) int {
	switch b.Kind() {
	case types.Int8, types.Uint8:
		return 8
	case types.Int16, types.Uint16:
		return 16
	case types.Int32, types.Uint32:
		return 32
	case types.UntypedRune:
		return 32
	}
	return 64
}

func isUnsigned(t types.Type) bool {
	b, ok := t.Underlying().(*types.Basic)
	return ok && b.Info()&types.IsUnsigned != 0
}

func isInteger(t types.Type) bool {
	b, ok := t.Underlying().(*types.Basic)
	return ok && b.Info()&types.IsInteger != 0
}

func typeRange(t types.Type) (lo, hi *big.Int) {
	b := t.Underlying().(*types.Basic)
	w := intWidth(b)
	if b.Info()&types.IsUnsigned != 0 {
		return big.NewInt(0), new(big.Int).Sub(pow2(w), big.NewInt(1))
	}
	return new(big.Int).Neg(pow2(w - 1)), new(big.Int).Sub(pow2(w-1), big.NewInt(1))
}

// inRange is the well-typedness fact of an Int-sorted value of Go type t.
func (c *Ctx) inRange(v Term, t types.Type) Term {
	if c.mode != "int" || !isInteger(t) || v.Sort != SInt {
		return tTrue
	}
	lo, hi := typeRange(t)
	return and(app(SBool, "<=", bigLit(lo), v), app(SBool, "<=", v, bigLit(hi)))
}

// wrap reduces a mathematical integer into the range of Go type t
// (exact machine semantics, no overflow assumption). near = the value is at
// most one modulus away from the range (add/sub of in-range operands).
func (c *Ctx) wrap(v Term, t types.Type, near bool) Term {
	lo, hi := typeRange(t)
	w := intWidth(t.Underlying().(*types.Basic))
	m := bigLit(pow2(w))
	if near {
		v = c.name("w", v)
		return ite(app(SBool, ">", v, bigLit(hi)), app(SInt, "-", v, m),
			ite(app(SBool, "<", v, bigLit(lo)), app(SInt, "+", v, m), v))
	}
	if lo.Sign() == 0 {
		return app(SInt, "mod", v, m)
	}
	half := bigLit(pow2(w - 1))
	return app(SInt, "-", app(SInt, "mod", app(SInt, "+", v, half), m), half)
}

// ---------------------------------------------------------------------
// script generation

func (c *Ctx) prelude() string {
	is := c.intS()
	var b strings.Builder
	b.WriteString("(set-option :produce-models true)\n(set-logic ALL)\n")
	b.WriteString("(declare-datatypes ((Ref 0)) (((null) (obj (oid Int)) (fld (fbase Ref) (fidx Int)) (elem (ebase Ref) (eidx " + is + ")) (box (bval Int)))))\n")
	b.WriteString("(declare-datatypes ((Slice 0)) (((mkslice (sarr Ref) (soff " + is + ") (slen " + is + ") (scap " + is + ")))))\n")
	b.WriteString("(declare-datatypes ((Iface 0)) (((mkiface (itag Int) (ival Ref)))))\n")
	b.WriteString("(declare-sort Float 0)\n")
	return b.String()
}

func (c *Ctx) script(o *Obligation) string {
	var b strings.Builder
	b.WriteString("; obligation " + o.Name + "\n")
	b.WriteString(c.prelude())
	for _, d := range c.decls[:o.NDecl] {
		b.WriteString(d)
		b.WriteByte('\n')
	}
	for _, a := range c.asserts[:o.NAssert] {
		b.WriteString("(assert ")
		b.WriteString(a)
		b.WriteString(")\n")
	}
	b.WriteString("(assert " + o.Reach.S + ")\n")
	if !o.ExpectSat {
		b.WriteString("(assert (not " + o.Goal.S + "))\n")
	}
	b.WriteString("(check-sat)\n")
	return b.String()
}

func sortedKeys[V any](m map[string]V) []string {
	var ks []string
	for k := range m {
		ks = append(ks, k)
	}
	sort.Strings(ks)
	return ks
}
