package main

// Format constants (C10, layer 3): every package-level constant and every
// initialised package-level table that is referenced from decode-side code
// (functions that parse the stream: Inverse*/Decod*/Read*/read*/Hash*/New*/
// GetName/GetType and the header functions) is compared with the value pinned
// from the reference snapshot. The obligations are discharged by go/types
// constant evaluation (no solver involved).

import (
	"bytes"
	"crypto/sha256"
	"encoding/json"
	"fmt"
	"go/ast"
	"go/printer"
	"go/types"
	"os"
	"path/filepath"
	"regexp"
	"sort"
	"strings"
)

var decodeSideRe = regexp.MustCompile(`(Inverse|inverse|Decod|decod|Read|read|Hash|hash|^New|^new|GetName|GetType|getByteFunction|writeHeader|Dispose|^init$|Squash|Stretch|Log2|update|predict|Update|Get$|get$)`)

// notFormatRe: constants referenced from decode-side code that do not take part in
// the stream format (error and event codes, buffer sizes, sort stack sizes):
// changing them is not a format change, they are not pinned.
var notFormatRe = regexp.MustCompile(`^(kanzi\.ERR_|kanzi\.EVT_|io\._STREAM_DEFAULT_BUFFER_SIZE$|io\._EXTRA_BUFFER_SIZE$|io\._CANCEL_TASKS_ID$|transform\._SS_|transform\._TR_STACKSIZE$)`)

type constPin struct {
	Kind  string `json:"kind"` // const | table
	Value string `json:"value"`
}

func collectFormatConstants(ld *Loaded) map[string]constPin {
	out := map[string]constPin{}
	for path, p := range ld.tpkgs {
		if !strings.HasPrefix(path, modPath) || strings.HasSuffix(path, "/app") || strings.HasSuffix(path, "/benchmark") {
			continue
		}
		if p.TypesInfo == nil {
			continue
		}
		// package-level vars with literal initialisers
		tables := map[types.Object]ast.Expr{}
		for _, f := range p.Syntax {
			fname := ld.fset.Position(f.Pos()).Filename
			if strings.HasSuffix(fname, "_test.go") {
				continue
			}
			for _, d := range f.Decls {
				gd, ok := d.(*ast.GenDecl)
				if !ok {
					continue
				}
				for _, sp := range gd.Specs {
					vs, ok := sp.(*ast.ValueSpec)
					if !ok {
						continue
					}
					for i, n := range vs.Names {
						obj := p.TypesInfo.Defs[n]
						if v, ok := obj.(*types.Var); ok && i < len(vs.Values) {
							if _, isLit := vs.Values[i].(*ast.CompositeLit); isLit {
								tables[v] = vs.Values[i]
							}
						}
					}
				}
			}
		}
		for _, f := range p.Syntax {
			fname := ld.fset.Position(f.Pos()).Filename
			if strings.HasSuffix(fname, "_test.go") {
				continue
			}
			for _, d := range f.Decls {
				fd, ok := d.(*ast.FuncDecl)
				if !ok || fd.Body == nil {
					continue
				}
				name := fd.Name.Name
				recv := ""
				if fd.Recv != nil && len(fd.Recv.List) > 0 {
					var b bytes.Buffer
					printer.Fprint(&b, ld.fset, fd.Recv.List[0].Type)
					recv = b.String()
				}
				if !decodeSideRe.MatchString(name) && !strings.Contains(recv, "Decoder") && !strings.Contains(recv, "Predictor") && !strings.Contains(recv, "Reader") && !strings.Contains(recv, "InputBitStream") {
					continue
				}
				ast.Inspect(fd.Body, func(n ast.Node) bool {
					id, ok := n.(*ast.Ident)
					if !ok {
						return true
					}
					obj := p.TypesInfo.Uses[id]
					if obj == nil || obj.Pkg() == nil || !strings.HasPrefix(obj.Pkg().Path(), modPath) {
						return true
					}
					if obj.Parent() != obj.Pkg().Scope() {
						return true
					}
					key := shortPkg(obj.Pkg().Path()) + "." + obj.Name()
					switch o := obj.(type) {
					case *types.Const:
						out[key] = constPin{"const", o.Val().ExactString()}
					case *types.Var:
						if lit, ok := tables[o]; ok {
							var b bytes.Buffer
							printer.Fprint(&b, ld.fset, lit)
							// whitespace-insensitive digest of the literal
							txt := strings.Join(strings.Fields(b.String()), "")
							out[key] = constPin{"table", fmt.Sprintf("sha256:%x len=%d", sha256.Sum256([]byte(txt)), len(txt))}
						}
					}
					return true
				})
			}
		}
	}
	return out
}

func constsFile() string {
	return filepath.Join(verifDir(), "contracts", "format_constants.json")
}

func pinConstsCmd() {
	ld, err := loadRepo()
	if err != nil {
		fmt.Fprintln(os.Stderr, err)
		os.Exit(2)
	}
	cs := collectFormatConstants(ld)
	for k := range cs {
		if notFormatRe.MatchString(k) {
			delete(cs, k)
		}
	}
	b, _ := json.MarshalIndent(cs, "", " ")
	os.WriteFile(constsFile(), b, 0o644)
	fmt.Printf("pinned %d constants and tables in %s\n", len(cs), constsFile())
}

type constMismatch struct {
	Name, Want, Got string
}

// checkConstants compares the current tree with the pinned values.
func checkConstants(ld *Loaded) (n int, bad []constMismatch, err error) {
	b, err := os.ReadFile(constsFile())
	if err != nil {
		return 0, nil, err
	}
	pinned := map[string]constPin{}
	if err := json.Unmarshal(b, &pinned); err != nil {
		return 0, nil, err
	}
	cur := collectFormatConstants(ld)
	var names []string
	for k := range pinned {
		names = append(names, k)
	}
	sort.Strings(names)
	for _, k := range names {
		n++
		c, ok := cur[k]
		if !ok {
			// no longer referenced from decode-side code, or removed: look it up directly
			got := lookupConst(ld, k)
			if got == "" {
				bad = append(bad, constMismatch{k, pinned[k].Value, "(absent)"})
			} else if got != pinned[k].Value && pinned[k].Kind == "const" {
				bad = append(bad, constMismatch{k, pinned[k].Value, got})
			}
			continue
		}
		if c.Value != pinned[k].Value {
			bad = append(bad, constMismatch{k, pinned[k].Value, c.Value})
		}
	}
	return n, bad, nil
}

func lookupConst(ld *Loaded, key string) string {
	i := strings.LastIndex(key, ".")
	pk, name := key[:i], key[i+1:]
	for path, p := range ld.tpkgs {
		if shortPkg(path) != pk || p.Types == nil {
			continue
		}
		if obj := p.Types.Scope().Lookup(name); obj != nil {
			if c, ok := obj.(*types.Const); ok {
				return c.Val().ExactString()
			}
			return "(present)"
		}
	}
	return ""
}
