; Lemma C16-sum-exact (checked by cvc5 --quant-ind on every run of ./check C16).
;
; NormalizeFrequencies is proved (by kvc, for all inputs) to return with
;     s == scale  ||  (s > scale  &&  forall j in [0,256): freqs[j] <= 1)
; where s = sum(freqs, 0, 256), and to return an error unless 256 <= scale.
; This lemma closes the gap to the property statement: with sum defined as the
; recursive sum of the array, 256 entries that are each at most 1 sum to at
; most 256 <= scale, so the second disjunct is impossible and s == scale.
(set-logic ALL)
(define-fun-rec sum ((a (Array Int Int)) (lo Int) (hi Int)) Int
  (ite (<= hi lo) 0 (+ (sum a lo (- hi 1)) (select a (- hi 1)))))
(declare-fun freqs () (Array Int Int))
(declare-fun scale () Int)
; induction: a prefix of entries <= 1 sums to at most its length
(assert (forall ((n Int)) (=> (and (>= n 0) (forall ((j Int)) (=> (and (<= 0 j) (< j n)) (<= (select freqs j) 1)))) (<= (sum freqs 0 n) n))))
(assert (<= 256 scale))
(assert (or (= (sum freqs 0 256) scale)
            (and (> (sum freqs 0 256) scale) (forall ((j Int)) (=> (and (<= 0 j) (< j 256)) (<= (select freqs j) 1))))))
(assert (not (= (sum freqs 0 256) scale)))
(check-sat)
