package main

import (
	"sort"
	"encoding/json"
	"path/filepath"
	"os"
	"fmt"
	"go/constant"
	"go/types"
	"math/big"
	"strings"

	"golang.org/x/tools/go/ssa"
)

// SVal: value of a spec expression.
type SVal struct {
	V   Val
	T   types.Type // Go type when known (nil for pure spec values)
	Lit *big.Int   // untyped integer literal
}

type ghostArr struct {
	Ref  Term
	Name string
	Kind string
}

type SpecEnv struct {
	ex        *Exec
	fr        *Frame // for local-variable names (loop invariants); may be nil
	st        *State
	old       *State
	loopEntry *State
	vars      map[string]SVal
	fcOwner   *FuncContract
	inOld     bool
	pkg       *types.Package
	depth     int
	// skolemisation of positive top-level universal quantifiers
	skolemize bool              // replace them by fresh constants (goal side)
	skolems   map[string]SVal   // constants chosen / to instantiate with (hypothesis side)
	positive  bool              // currently at a positive top-level position
	loopHead  *ssa.BasicBlock   // loop whose clauses are being evaluated (disambiguates `rangeindex`)
}

func (ex *Exec) specEnv(fr *Frame, st, old *State) *SpecEnv {
	env := &SpecEnv{ex: ex, fr: fr, st: st, old: old, vars: map[string]SVal{}}
	if ex.fn != nil && ex.fn.Pkg != nil {
		env.pkg = ex.fn.Pkg.Pkg
	}
	if fr != nil && fr.isTop {
		for n, v := range ex.paramEntry {
			env.vars[n] = v
		}
	}
	return env
}

func (env *SpecEnv) fail(format string, a ...any) SVal {
	msg := fmt.Sprintf(format, a...)
	env.ex.cx.unsup("spec: %s", msg)
	return SVal{V: Sc{env.ex.cx.fresh("specerr", SBool)}}
}

func (env *SpecEnv) evalBool(e Expr) Term {
	v := env.eval(e)
	sc, ok := v.V.(Sc)
	if !ok || sc.T.Sort != SBool {
		env.ex.cx.unsup("spec: boolean expected in %s", exprString(e))
		return env.ex.cx.fresh("specerr", SBool)
	}
	return sc.T
}

// evalGoalSkolem evaluates a goal, replacing the universal quantifiers at
// positive top-level positions by fresh constants; it returns the constants.
func (env *SpecEnv) evalGoalSkolem(e Expr) (Term, map[string]SVal) {
	env.skolemize, env.positive, env.skolems = true, true, map[string]SVal{}
	t := env.evalBool(e)
	sk := env.skolems
	env.skolemize, env.positive, env.skolems = false, false, nil
	return t, sk
}

// evalInstance evaluates a hypothesis with its positive top-level universal
// quantifiers instantiated at the given constants (matched by variable name).
func (env *SpecEnv) evalInstance(e Expr, sk map[string]SVal) Term {
	env.skolemize, env.positive, env.skolems = false, true, sk
	t := env.evalBool(e)
	env.positive, env.skolems = false, nil
	return t
}

func (env *SpecEnv) evalInt(e Expr) Term {
	v := env.eval(e)
	return env.intTerm(v)
}

// intTerm: term of the index sort for an integer-valued spec value.
func (env *SpecEnv) intTerm(v SVal) Term {
	ex := env.ex
	if v.Lit != nil {
		if ex.cx.mode == "bv" {
			return bvLit(v.Lit, 64)
		}
		return bigLit(v.Lit)
	}
	sc, ok := v.V.(Sc)
	if !ok {
		ex.cx.unsup("spec: integer expected")
		return ex.izero()
	}
	return sc.T
}

func (env *SpecEnv) state() *State {
	if env.inOld {
		return env.old
	}
	return env.st
}

func lit(n *big.Int) SVal { return SVal{Lit: n} }

func (env *SpecEnv) boolVal(t Term) SVal { return SVal{V: Sc{t}, T: types.Typ[types.Bool]} }

func (env *SpecEnv) eval(e Expr) SVal {
	ex := env.ex
	switch x := e.(type) {
	case *ENum:
		n, ok := new(big.Int).SetString(x.Val, 0)
		if !ok {
			return env.fail("bad number %s", x.Val)
		}
		return lit(n)
	case *EStr:
		return SVal{V: Sc{ex.cx.strID(x.Val)}, T: types.Typ[types.String]}
	case *EIdent:
		return env.ident(x.Name)
	case *EOld:
		if env.old == nil {
			return env.fail("old() without pre-state")
		}
		saved := env.inOld
		env.inOld = true
		r := env.eval(x.X)
		env.inOld = saved
		return r
	case *EUn:
		return env.unary(x)
	case *EBin:
		return env.binary(x)
	case *ECond:
		c := env.evalBool(x.C)
		a, b := env.eval(x.A), env.eval(x.B)
		a, b = env.unify(a, b)
		at, aok := a.V.(Sc)
		bt, bok := b.V.(Sc)
		if !aok || !bok {
			return env.fail("conditional on non-scalars")
		}
		return SVal{V: Sc{ite(c, at.T, bt.T)}, T: a.T}
	case *ESel:
		return env.selector(x)
	case *EIndex:
		return env.index(x)
	case *ESlice:
		return env.sliceExpr(x)
	case *ECall:
		return env.call(x)
	case *EQuant:
		return env.quant(x)
	}
	return env.fail("unsupported expression %T", e)
}

func (env *SpecEnv) ident(name string) SVal {
	ex := env.ex
	switch name {
	case "true":
		return env.boolVal(tTrue)
	case "false":
		return env.boolVal(tFalse)
	case "nil":
		return SVal{V: Sc{tNull}, T: types.Typ[types.UntypedNil]}
	}
	if env.inOld {
		if v, ok := env.vars["old$"+name]; ok {
			return v
		}
	}
	if ex.fc != nil {
		for _, gl := range ex.fc.GhostLocals {
			if gl.Name == name {
				st := env.state()
				if env.inOld && env.loopEntry != nil {
					st = env.loopEntry
				}
				t, ok := st.vars["gl!"+name]
				if !ok {
					return env.fail("ghost local %s not initialised", name)
				}
				if gl.Type == "bool" {
					return env.boolVal(t)
				}
				return SVal{V: Sc{t}, T: types.Typ[types.Int]}
			}
		}
	}
	if v, ok := env.vars[name]; ok {
		if env.fr != nil && env.fr.isTop && !env.inOld {
			// inside the function body a parameter name denotes its current cell
			if a := env.findLocal(name); a != nil {
				if cur, ok := env.st.locals[a]; ok {
					return SVal{V: cur, T: a.Type().Underlying().(*types.Pointer).Elem()}
				}
			}
		}
		return v
	}
	if env.fr != nil {
		if a := env.findLocal(name); a != nil {
			et := a.Type().Underlying().(*types.Pointer).Elem()
			st := env.state()
			if env.inOld && env.loopEntry != nil {
				st = env.loopEntry
			}
			if env.fr.direct[a] {
				if cur, ok := st.locals[a]; ok {
					return SVal{V: cur, T: et}
				}
				return env.fail("local %s not live here", name)
			}
			// heap-allocated local: object ref is the register value
			if rv, ok := env.fr.regs[a]; ok {
				return SVal{V: ex.load(st, rv, et), T: et}
			}
		}
	}
	// package-level constant
	if env.pkg != nil {
		if obj := env.pkg.Scope().Lookup(name); obj != nil {
			if c, ok := obj.(*types.Const); ok {
				return env.constVal(c)
			}
		}
	}
	return env.fail("unknown identifier %s", name)
}

func (env *SpecEnv) constVal(c *types.Const) SVal {
	switch c.Val().Kind() {
	case constant.Int:
		n, _ := new(big.Int).SetString(c.Val().ExactString(), 10)
		return lit(n)
	case constant.Bool:
		if constant.BoolVal(c.Val()) {
			return env.boolVal(tTrue)
		}
		return env.boolVal(tFalse)
	case constant.String:
		return SVal{V: Sc{env.ex.cx.strID(constant.StringVal(c.Val()))}, T: types.Typ[types.String]}
	}
	return env.fail("constant %s of unsupported kind", c.Name())
}

func (env *SpecEnv) findLocal(name string) *ssa.Alloc {
	if name == "rangeindex" && env.loopHead != nil {
		// the hidden index of the range loop whose head this is
		for _, ins := range env.loopHead.Instrs {
			if st, ok := ins.(*ssa.Store); ok {
				if a, ok := st.Addr.(*ssa.Alloc); ok && a.Comment == "rangeindex" {
					return a
				}
			}
		}
	}
	var live, all []*ssa.Alloc
	for a := range env.fr.direct {
		if a.Comment != name {
			continue
		}
		all = append(all, a)
		if env.fr.direct[a] {
			if _, ok := env.st.locals[a]; ok {
				live = append(live, a)
			}
		} else if _, ok := env.fr.regs[a]; ok {
			live = append(live, a)
		}
	}
	pick := func(c []*ssa.Alloc) *ssa.Alloc {
		var best *ssa.Alloc
		for _, a := range c {
			if best == nil || a.Pos() > best.Pos() {
				best = a
			}
		}
		return best
	}
	if len(live) > 0 {
		return pick(live)
	}
	if a := pick(all); a != nil {
		return a
	}
	// The name is unknown in the current tree. If the reference tree had a local of that
	// name, the local that now sits at the same place (same type, same rank among the locals
	// of that type) is taken instead: a renamed local keeps its contract clauses. This is only
	// name resolution: the clauses still have to be proved about whatever local was chosen.
	return env.ex.renamedLocal(env.fr, name)
}

type localSig struct {
	Name string `json:"name"`
	Type string `json:"type"`
}

// namedLocals lists the named locals (and parameters spilled to allocs) of fn in source order.
func namedLocals(fn *ssa.Function) []*ssa.Alloc {
	var out []*ssa.Alloc
	for _, b := range fn.Blocks {
		for _, ins := range b.Instrs {
			if a, ok := ins.(*ssa.Alloc); ok && a.Comment != "" && a.Comment != "rangeindex" && !strings.Contains(a.Comment, ".") && a.Pos().IsValid() {
				out = append(out, a)
			}
		}
	}
	for _, a := range fn.Locals {
		dup := false
		for _, b := range out {
			if a == b {
				dup = true
			}
		}
		if !dup && a.Comment != "" && a.Comment != "rangeindex" && !strings.Contains(a.Comment, ".") && a.Pos().IsValid() {
			out = append(out, a)
		}
	}
	sort.SliceStable(out, func(i, j int) bool { return out[i].Pos() < out[j].Pos() })
	return out
}

func localSigs(fn *ssa.Function) []localSig {
	var out []localSig
	for _, a := range namedLocals(fn) {
		out = append(out, localSig{a.Comment, types.TypeString(a.Type().Underlying().(*types.Pointer).Elem(), nil)})
	}
	return out
}

var baselineLocals map[string][]localSig
var baselineLocalsLoaded bool

func (ex *Exec) renamedLocal(fr *Frame, name string) *ssa.Alloc {
	if fr != nil && !fr.isTop && fr.adoptsLoops && ex.fn != nil {
		// a clause that followed its loop into a helper names a local of the original function:
		// the helper's only non-parameter local of the same type stands for it
		if !baselineLocalsLoaded {
			baselineLocalsLoaded = true
			if b, err := os.ReadFile(filepath.Join(verifDir(), "baseline", "locals.json")); err == nil {
				json.Unmarshal(b, &baselineLocals)
			}
		}
		typ := ""
		for _, l := range baselineLocals[ex.fn.String()] {
			if l.Name == name {
				typ = l.Type
			}
		}
		if typ == "" {
			return nil
		}
		params := map[string]bool{}
		for _, p := range fr.fn.Params {
			params[p.Name()] = true
		}
		var cands []*ssa.Alloc
		for _, a := range namedLocals(fr.fn) {
			if !params[a.Comment] && types.TypeString(a.Type().Underlying().(*types.Pointer).Elem(), nil) == typ {
				cands = append(cands, a)
			}
		}
		if len(cands) == 1 {
			ex.cx.note("local %s of %s is resolved to %s in the helper %s", name, ex.fn.Name(), cands[0].Comment, fr.fn.Name())
			return cands[0]
		}
		return nil
	}
	if fr == nil || !fr.isTop {
		return nil
	}
	if !baselineLocalsLoaded {
		baselineLocalsLoaded = true
		if b, err := os.ReadFile(filepath.Join(verifDir(), "baseline", "locals.json")); err == nil {
			json.Unmarshal(b, &baselineLocals)
		}
	}
	ref := baselineLocals[fr.fn.String()]
	if ref == nil {
		return nil
	}
	// locals of the same type, reference versus current, aligned on the names they share: the
	// i-th reference-only name between two shared names is matched with the i-th current-only
	// name between the same two shared names
	typ := ""
	for _, l := range ref {
		if l.Name == name {
			typ = l.Type
			break
		}
	}
	if typ == "" {
		return nil
	}
	var refNames []string
	for _, l := range ref {
		if l.Type == typ {
			refNames = append(refNames, l.Name)
		}
	}
	var curAllocs []*ssa.Alloc
	for _, a := range namedLocals(fr.fn) {
		if types.TypeString(a.Type().Underlying().(*types.Pointer).Elem(), nil) == typ {
			curAllocs = append(curAllocs, a)
		}
	}
	inCur := map[string]bool{}
	for _, a := range curAllocs {
		inCur[a.Comment] = true
	}
	inRef := map[string]bool{}
	for _, n := range refNames {
		inRef[n] = true
	}
	// position of the name: previous shared name (anchor) and index among the reference-only names after it
	anchor, idx := "", 0
	for _, n := range refNames {
		if n == name {
			break
		}
		if inCur[n] {
			anchor, idx = n, 0
		} else {
			idx++
		}
	}
	var cand *ssa.Alloc
	seen := anchor == ""
	k := 0
	for _, a := range curAllocs {
		if !seen {
			if a.Comment == anchor {
				seen = true
			}
			continue
		}
		if inRef[a.Comment] {
			break // next shared name: end of the gap
		}
		if k == idx {
			cand = a
			break
		}
		k++
	}
	if cand == nil {
		return nil
	}
	ex.cx.note("local %s of %s is resolved to the renamed local %s (same type and rank as in the reference tree)", name, fr.fn.Name(), cand.Comment)
	return cand
}

func (env *SpecEnv) unary(x *EUn) SVal {
	ex := env.ex
	pos := env.positive
	env.positive = false
	v := env.eval(x.X)
	env.positive = pos
	switch x.Op {
	case "!":
		sc, ok := v.V.(Sc)
		if !ok || sc.T.Sort != SBool {
			return env.fail("! on non-boolean")
		}
		return env.boolVal(not(sc.T))
	case "-":
		if v.Lit != nil {
			return lit(new(big.Int).Neg(v.Lit))
		}
		t := env.intTerm(v)
		if t.Sort == SInt {
			return SVal{V: Sc{app(SInt, "-", t)}, T: v.T}
		}
		return SVal{V: Sc{app(t.Sort, "bvneg", t)}, T: v.T}
	case "^":
		t := env.intTerm(v)
		if _, ok := isBV(t.Sort); ok {
			return SVal{V: Sc{app(t.Sort, "bvnot", t)}, T: v.T}
		}
		return env.fail("^ on mathematical integer")
	case "*":
		if v.T == nil {
			return env.fail("deref of untyped value")
		}
		pt, ok := v.T.Underlying().(*types.Pointer)
		if !ok {
			return env.fail("deref of non-pointer")
		}
		return SVal{V: ex.load(env.state(), v.V, pt.Elem()), T: pt.Elem()}
	}
	return env.fail("unary %s", x.Op)
}

// unify adapts literals to the sort of the other operand.
func (env *SpecEnv) unify(a, b SVal) (SVal, SVal) {
	ex := env.ex
	conv := func(l SVal, other SVal) SVal {
		osc, ok := other.V.(Sc)
		if !ok {
			return SVal{V: Sc{bigLit(l.Lit)}, T: types.Typ[types.Int]}
		}
		if w, isbv := isBV(osc.T.Sort); isbv {
			return SVal{V: Sc{bvLit(l.Lit, w)}, T: other.T}
		}
		return SVal{V: Sc{bigLit(l.Lit)}, T: other.T}
	}
	switch {
	case a.Lit != nil && b.Lit != nil:
		if ex.cx.mode == "bv" {
			return SVal{V: Sc{bvLit(a.Lit, 64)}, T: types.Typ[types.Int]}, SVal{V: Sc{bvLit(b.Lit, 64)}, T: types.Typ[types.Int]}
		}
		return SVal{V: Sc{bigLit(a.Lit)}, T: types.Typ[types.Int]}, SVal{V: Sc{bigLit(b.Lit)}, T: types.Typ[types.Int]}
	case a.Lit != nil:
		return conv(a, b), b
	case b.Lit != nil:
		return a, conv(b, a)
	}
	// nil against ifaces / slices
	if a.T != nil && b.T != nil {
		if bb, ok := b.T.(*types.Basic); ok && bb.Kind() == types.UntypedNil {
			b = env.nilOf(a)
		} else if ab, ok := a.T.(*types.Basic); ok && ab.Kind() == types.UntypedNil {
			a = env.nilOf(b)
		}
	}
	// bv width mismatch: extend the narrower one
	asc, aok := a.V.(Sc)
	bsc, bok := b.V.(Sc)
	if aok && bok {
		wa, ia := isBV(asc.T.Sort)
		wb, ib := isBV(bsc.T.Sort)
		if ia && ib && wa != wb {
			ext := func(t Term, from, to int, typ types.Type) Term {
				if typ != nil && isInteger(typ) && !isUnsigned(typ) {
					return app(bvSort(to), fmt.Sprintf("(_ sign_extend %d)", to-from), t)
				}
				return app(bvSort(to), fmt.Sprintf("(_ zero_extend %d)", to-from), t)
			}
			if wa < wb {
				a = SVal{V: Sc{ext(asc.T, wa, wb, a.T)}, T: b.T}
			} else {
				b = SVal{V: Sc{ext(bsc.T, wb, wa, b.T)}, T: a.T}
			}
		}
	}
	return a, b
}

func (env *SpecEnv) nilOf(other SVal) SVal {
	if sc, ok := other.V.(Sc); ok {
		switch sc.T.Sort {
		case SIface:
			return SVal{V: Sc{nilIface()}, T: other.T}
		case SSlice:
			return SVal{V: Sc{env.ex.zeroTerm(SSlice)}, T: other.T}
		}
	}
	return SVal{V: Sc{tNull}, T: other.T}
}

func unsignedSV(v SVal) bool { return v.T != nil && isInteger(v.T) && isUnsigned(v.T) }

func (env *SpecEnv) binary(x *EBin) SVal {
	ex := env.ex
	pos := env.positive
	switch x.Op {
	case "&&":
		return env.boolVal(and(env.evalBool(x.L), env.evalBool(x.R)))
	case "||":
		env.positive = false
		r := env.boolVal(or(env.evalBool(x.L), env.evalBool(x.R)))
		env.positive = pos
		return r
	case "==>":
		env.positive = false
		l := env.evalBool(x.L)
		env.positive = pos
		return env.boolVal(implies(l, env.evalBool(x.R)))
	case "<==>":
		env.positive = false
		r := env.boolVal(eq(env.evalBool(x.L), env.evalBool(x.R)))
		env.positive = pos
		return r
	}
	env.positive = false
	defer func() { env.positive = pos }()
	a, b := env.eval(x.L), env.eval(x.R)
	if a.Lit != nil && b.Lit != nil {
		r := new(big.Int)
		switch x.Op {
		case "+":
			return lit(r.Add(a.Lit, b.Lit))
		case "-":
			return lit(r.Sub(a.Lit, b.Lit))
		case "*":
			return lit(r.Mul(a.Lit, b.Lit))
		case "/":
			if b.Lit.Sign() != 0 {
				return lit(r.Quo(a.Lit, b.Lit))
			}
		case "<<":
			return lit(r.Lsh(a.Lit, uint(b.Lit.Int64())))
		case ">>":
			return lit(r.Rsh(a.Lit, uint(b.Lit.Int64())))
		case "&":
			return lit(r.And(a.Lit, b.Lit))
		case "|":
			return lit(r.Or(a.Lit, b.Lit))
		case "%":
			if b.Lit.Sign() != 0 {
				return lit(r.Rem(a.Lit, b.Lit))
			}
		}
	}
	uns := unsignedSV(a) || unsignedSV(b)
	shiftLit := b.Lit
	a, b = env.unify(a, b)
	switch x.Op {
	case "==", "!=":
		r := ex.valEq(a.V, b.V)
		if x.Op == "!=" {
			r = not(r)
		}
		return env.boolVal(r)
	}
	asc, aok := a.V.(Sc)
	bsc, bok := b.V.(Sc)
	if !aok || !bok {
		return env.fail("operator %s on non-scalars", x.Op)
	}
	l, r := asc.T, bsc.T
	rt := a.T
	if rt == nil {
		rt = b.T
	}
	if l.Sort == SInt && r.Sort == SInt {
		switch x.Op {
		case "*":
			return SVal{V: Sc{ex.cx.mul(l, r)}, T: rt}
		case "+", "-":
			return SVal{V: Sc{app(SInt, x.Op, l, r)}, T: rt}
		case "/":
			env.specDivFacts(l, r)
			return SVal{V: Sc{tdiv(l, r)}, T: rt}
		case "%":
			env.specDivFacts(l, r)
			return SVal{V: Sc{trem(l, r)}, T: rt}
		case "<", "<=", ">", ">=":
			return env.boolVal(app(SBool, x.Op, l, r))
		case "<<":
			if shiftLit != nil {
				return SVal{V: Sc{app(SInt, "*", l, bigLit(pow2(int(shiftLit.Int64()))))}, T: rt}
			}
			ex.cx.declFun("pow2$", []string{SInt}, SInt)
			ex.cx.assume(Term{"(and (= (pow2$ 0) 1) (forall ((k!p Int)) (! (=> (> k!p 0) (= (pow2$ k!p) (* 2 (pow2$ (- k!p 1))))) :pattern ((pow2$ k!p)))))", SBool})
			return SVal{V: Sc{app(SInt, "*", l, app(SInt, "pow2$", r))}, T: rt}
		case ">>":
			if shiftLit != nil {
				return SVal{V: Sc{app(SInt, "div", l, bigLit(pow2(int(shiftLit.Int64()))))}, T: rt}
			}
		case "&":
			if m, ok := litValue(r); ok {
				if k, ok := isPow2(new(big.Int).Add(m, big.NewInt(1))); ok {
					return SVal{V: Sc{app(SInt, "mod", l, bigLit(pow2(k)))}, T: rt}
				}
			}
		}
		return env.fail("operator %s on mathematical integers", x.Op)
	}
	if _, ok := isBV(l.Sort); ok && l.Sort == r.Sort {
		pick := func(u, s string) string {
			if uns {
				return u
			}
			return s
		}
		switch x.Op {
		case "+":
			return SVal{V: Sc{app(l.Sort, "bvadd", l, r)}, T: rt}
		case "-":
			return SVal{V: Sc{app(l.Sort, "bvsub", l, r)}, T: rt}
		case "*":
			return SVal{V: Sc{app(l.Sort, "bvmul", l, r)}, T: rt}
		case "/":
			return SVal{V: Sc{app(l.Sort, pick("bvudiv", "bvsdiv"), l, r)}, T: rt}
		case "%":
			return SVal{V: Sc{app(l.Sort, pick("bvurem", "bvsrem"), l, r)}, T: rt}
		case "&":
			return SVal{V: Sc{app(l.Sort, "bvand", l, r)}, T: rt}
		case "|":
			return SVal{V: Sc{app(l.Sort, "bvor", l, r)}, T: rt}
		case "^":
			return SVal{V: Sc{app(l.Sort, "bvxor", l, r)}, T: rt}
		case "<<":
			return SVal{V: Sc{app(l.Sort, "bvshl", l, r)}, T: a.T}
		case ">>":
			if unsignedSV(a) || a.T == nil {
				return SVal{V: Sc{app(l.Sort, "bvlshr", l, r)}, T: a.T}
			}
			return SVal{V: Sc{app(l.Sort, "bvashr", l, r)}, T: a.T}
		case "<":
			return env.boolVal(app(SBool, pick("bvult", "bvslt"), l, r))
		case "<=":
			return env.boolVal(app(SBool, pick("bvule", "bvsle"), l, r))
		case ">":
			return env.boolVal(app(SBool, pick("bvugt", "bvsgt"), l, r))
		case ">=":
			return env.boolVal(app(SBool, pick("bvuge", "bvsge"), l, r))
		}
	}
	return env.fail("operator %s on %s and %s", x.Op, l.Sort, r.Sort)
}

// objRef: reference under which fields of v are stored.
func (env *SpecEnv) objRef(v SVal) (Term, bool) {
	switch x := v.V.(type) {
	case Sc:
		switch x.T.Sort {
		case SRef:
			return x.T, true
		case SIface:
			return app(SRef, "ival", x.T), true
		}
	case FieldAddrV, ElemAddrV, GlobalAddr:
		return env.ex.materialize(x)
	}
	return Term{}, false
}

func (env *SpecEnv) selector(x *ESel) SVal {
	ex := env.ex
	// package-qualified constant
	if id, ok := x.X.(*EIdent); ok && env.pkg != nil {
		if _, isVar := env.vars[id.Name]; !isVar && (env.fr == nil || env.findLocal(id.Name) == nil) {
			for _, imp := range env.pkg.Imports() {
				if imp.Name() == id.Name {
					if obj := imp.Scope().Lookup(x.Name); obj != nil {
						if c, ok := obj.(*types.Const); ok {
							return env.constVal(c)
						}
					}
				}
			}
		}
	}
	v := env.eval(x.X)
	// struct value
	if a, ok := v.V.(Agg); ok && v.T != nil {
		if stt, ok := v.T.Underlying().(*types.Struct); ok {
			for i := 0; i < stt.NumFields(); i++ {
				if stt.Field(i).Name() == x.Name {
					return SVal{V: a.F[i], T: stt.Field(i).Type()}
				}
			}
		}
	}
	// pointer to struct
	if v.T != nil {
		if pt, ok := v.T.Underlying().(*types.Pointer); ok {
			if stt, ok := pt.Elem().Underlying().(*types.Struct); ok {
				for i := 0; i < stt.NumFields(); i++ {
					f := stt.Field(i)
					if f.Name() == x.Name {
						ref, ok := env.objRef(v)
						if !ok {
							return env.fail("field %s of non-reference", x.Name)
						}
						if _, isArr := f.Type().Underlying().(*types.Array); isArr {
							return SVal{V: FieldAddrV{Obj: ref, Fld: f}, T: types.NewPointer(f.Type())}
						}
						if _, isStruct := f.Type().Underlying().(*types.Struct); isStruct {
							// nested struct: its address (fields are reached through it)
							return SVal{V: FieldAddrV{Obj: ref, Fld: f}, T: types.NewPointer(f.Type())}
						}
						return SVal{V: ex.loadField(env.state(), ref, f), T: f.Type()}
					}
				}
			}
		}
	}
	// ghost field
	if g, ok := ex.cs.Ghosts[x.Name]; ok {
		ref, ok := env.objRef(v)
		if !ok {
			return env.fail("ghost field %s of non-reference", x.Name)
		}
		return env.ghostRead(g, ref)
	}
	// spec method without args is handled in call()
	return env.fail("unknown field %s", x.Name)
}

func (env *SpecEnv) ghostRead(g *GhostField, ref Term) SVal {
	ex := env.ex
	st := env.state()
	switch g.Kind {
	case "int":
		h := ex.heap(st, "G!"+g.Name, arrSort(SRef, ex.cx.intS()))
		return SVal{V: Sc{sel(h, ref)}, T: types.Typ[types.Int]}
	case "bool":
		h := ex.heap(st, "G!"+g.Name, arrSort(SRef, SBool))
		return SVal{V: Sc{sel(h, ref)}, T: types.Typ[types.Bool]}
	case "ref":
		h := ex.heap(st, "G!"+g.Name, arrSort(SRef, SRef))
		return SVal{V: Sc{sel(h, ref)}}
	case "bytes", "ints":
		return SVal{V: ghostArr{Ref: ref, Name: g.Name, Kind: g.Kind}}
	}
	return env.fail("ghost kind %s", g.Kind)
}

func (env *SpecEnv) ghostElemSort(kind string) string {
	if kind == "bytes" {
		return env.ex.byteSort()
	}
	return env.ex.cx.intS()
}

func (env *SpecEnv) index(x *EIndex) SVal {
	ex := env.ex
	v := env.eval(x.X)
	if _, isStar := x.I.(*EStar); isStar {
		return env.fail("[*] outside modifies")
	}
	if ga, ok := v.V.(ghostArr); ok {
		i := env.evalInt(x.I)
		es := env.ghostElemSort(ga.Kind)
		h := ex.heap(env.state(), "G!"+ga.Name, arrSort(SRef, arrSort(ex.cx.intS(), es)))
		t := types.Type(types.Typ[types.Int])
		if ga.Kind == "bytes" {
			t = types.Typ[types.Uint8]
		}
		return SVal{V: Sc{sel(sel(h, ga.Ref), i)}, T: t}
	}
	if v.T == nil {
		return env.fail("index of untyped value")
	}
	switch t := v.T.Underlying().(type) {
	case *types.Slice:
		s := v.V.(Sc).T
		i := env.evalInt(x.I)
		addr := ElemAddrV{Base: app(SRef, "sarr", s), Idx: ex.iadd(ex.soff(s), i), Elem: t.Elem()}
		return SVal{V: ex.load(env.state(), addr, t.Elem()), T: t.Elem()}
	case *types.Pointer:
		if at, ok := t.Elem().Underlying().(*types.Array); ok {
			ref, ok := ex.materialize(v.V)
			if !ok {
				return env.fail("index of array pointer")
			}
			i := env.evalInt(x.I)
			addr := ElemAddrV{Base: ref, Idx: i, Elem: at.Elem()}
			return SVal{V: ex.load(env.state(), addr, at.Elem()), T: at.Elem()}
		}
	case *types.Map:
		ref := v.V.(Sc).T
		k := env.eval(x.I)
		ksc, ok := k.V.(Sc)
		if !ok {
			return env.fail("map key")
		}
		_, val, ok := ex.mapGet(env.state(), ref, ksc.T, v.T)
		if !ok {
			return env.fail("map type")
		}
		return SVal{V: Sc{val}, T: t.Elem()}
	}
	return env.fail("index of %s", v.T)
}

func (env *SpecEnv) sliceExpr(x *ESlice) SVal {
	ex := env.ex
	v := env.eval(x.X)
	if v.T == nil {
		return env.fail("slice of untyped value")
	}
	if _, ok := v.T.Underlying().(*types.Slice); !ok {
		return env.fail("slice expression on %s", v.T)
	}
	s := v.V.(Sc).T
	lo := ex.izero()
	if x.Lo != nil {
		lo = env.evalInt(x.Lo)
	}
	hi := ex.slen(s)
	if x.Hi != nil {
		hi = env.evalInt(x.Hi)
	}
	return SVal{V: Sc{app(SSlice, "mkslice", app(SRef, "sarr", s), ex.iadd(ex.soff(s), lo), ex.isub(hi, lo), ex.isub(ex.scap(s), lo))}, T: v.T}
}

func (env *SpecEnv) quant(x *EQuant) SVal {
	ex := env.ex
	if x.All && env.positive && (env.skolemize || env.skolems != nil) {
		// positive universal quantifier: constants instead of binders
		savedV := map[string]*SVal{}
		ok := true
		for i, n := range x.Vars {
			if old, has := env.vars[n]; has {
				o := old
				savedV[n] = &o
			} else {
				savedV[n] = nil
			}
			if env.skolemize {
				srt := ex.cx.intS()
				var typ types.Type = types.Typ[types.Int]
				if x.Types[i] != "int" {
					ok = false
				}
				c := ex.cx.fresh("sk_"+n, srt)
				v := SVal{V: Sc{c}, T: typ}
				env.skolems[n] = v
				env.vars[n] = v
			} else if v, has := env.skolems[n]; has {
				env.vars[n] = v
			} else if v, has := env.skolems["*"]; has && len(x.Vars) == 1 && x.Types[i] == "int" {
				env.vars[n] = v
			} else {
				ok = false
			}
		}
		if ok {
			body := env.evalBool(x.Body)
			for n, o := range savedV {
				if o == nil {
					delete(env.vars, n)
				} else {
					env.vars[n] = *o
				}
			}
			return env.boolVal(body)
		}
		for n, o := range savedV {
			if o == nil {
				delete(env.vars, n)
			} else {
				env.vars[n] = *o
			}
		}
	}
	pos := env.positive
	env.positive = false
	defer func() { env.positive = pos }()
	saved := map[string]*SVal{}
	var binders []string
	for i, n := range x.Vars {
		if old, ok := env.vars[n]; ok {
			o := old
			saved[n] = &o
		} else {
			saved[n] = nil
		}
		ex.cx.n++
		bn := fmt.Sprintf("%s!q%d", n, ex.cx.n)
		srt := ex.cx.intS()
		var typ types.Type = types.Typ[types.Int]
		switch x.Types[i] {
		case "int":
		case "bool":
			srt, typ = SBool, types.Typ[types.Bool]
		case "ref":
			srt, typ = SRef, nil
		case "string":
			srt, typ = ex.cx.strSort(), types.Typ[types.String]
		case "uint64":
			if ex.cx.mode == "bv" {
				srt = bvSort(64)
			}
			typ = types.Typ[types.Uint64]
		case "mathint":
			srt = SInt
		}
		env.vars[n] = SVal{V: Sc{Term{bn, srt}}, T: typ}
		binders = append(binders, fmt.Sprintf("(%s %s)", bn, srt))
	}
	body := env.evalBool(x.Body)
	for n, o := range saved {
		if o == nil {
			delete(env.vars, n)
		} else {
			env.vars[n] = *o
		}
	}
	q := "forall"
	if !x.All {
		q = "exists"
	}
	return env.boolVal(Term{fmt.Sprintf("(%s (%s) %s)", q, strings.Join(binders, " "), body.S), SBool})
}

var castTypes = map[string]types.Type{
	"int": types.Typ[types.Int], "int8": types.Typ[types.Int8], "int16": types.Typ[types.Int16], "int32": types.Typ[types.Int32], "int64": types.Typ[types.Int64],
	"uint": types.Typ[types.Uint], "uint8": types.Typ[types.Uint8], "byte": types.Typ[types.Uint8], "uint16": types.Typ[types.Uint16], "uint32": types.Typ[types.Uint32], "uint64": types.Typ[types.Uint64],
}

func (env *SpecEnv) call(x *ECall) SVal {
	ex := env.ex
	// method-style spec function: recv.name(args)
	if sel, ok := x.Fn.(*ESel); ok {
		if sf, ok := ex.cs.Specs[sel.Name]; ok && sf.RecvName != "" {
			recv := env.eval(sel.X)
			return env.applySpec(sf, &recv, x.Args)
		}
		return env.fail("unknown spec method %s", sel.Name)
	}
	id, ok := x.Fn.(*EIdent)
	if !ok {
		return env.fail("call of non-identifier")
	}
	switch id.Name {
	case "len", "cap":
		v := env.eval(x.Args[0])
		if ga, ok := v.V.(ghostArr); ok {
			ex.heapElemType["G!"+ga.Name+"#len"] = types.Typ[types.Uint32]
			h := ex.heap(env.state(), "G!"+ga.Name+"#len", arrSort(SRef, ex.cx.intS()))
			return SVal{V: Sc{sel(h, ga.Ref)}, T: types.Typ[types.Int]}
		}
		if v.T != nil {
			switch t := v.T.Underlying().(type) {
			case *types.Slice:
				f := "slen"
				if id.Name == "cap" {
					f = "scap"
				}
				return SVal{V: Sc{app(ex.cx.intS(), f, v.V.(Sc).T)}, T: types.Typ[types.Int]}
			case *types.Basic:
				return SVal{V: Sc{ex.strLen(v.V.(Sc).T)}, T: types.Typ[types.Int]}
			case *types.Pointer:
				if at, ok := t.Elem().Underlying().(*types.Array); ok {
					return lit(big.NewInt(at.Len()))
				}
			}
		}
		return env.fail("len of unsupported value")
	case "min", "max":
		a, b := env.eval(x.Args[0]), env.eval(x.Args[1])
		uns := unsignedSV(a) || unsignedSV(b)
		a, b = env.unify(a, b)
		l, r := a.V.(Sc).T, b.V.(Sc).T
		var lt Term
		if l.Sort == SInt {
			lt = app(SBool, "<", l, r)
		} else if uns {
			lt = app(SBool, "bvult", l, r)
		} else {
			lt = app(SBool, "bvslt", l, r)
		}
		if id.Name == "min" {
			return SVal{V: Sc{ite(lt, l, r)}, T: a.T}
		}
		return SVal{V: Sc{ite(lt, r, l)}, T: a.T}
	case "has":
		// has(m, key): map presence
		m := env.eval(x.Args[0])
		k := env.eval(x.Args[1])
		if m.T == nil {
			return env.fail("has on untyped map")
		}
		has, _, ok := ex.mapGet(env.state(), m.V.(Sc).T, k.V.(Sc).T, m.T)
		if !ok {
			return env.fail("has: map type")
		}
		return env.boolVal(has)
	case "istype":
		// istype(v, "int"): dynamic type of an interface value
		v := env.eval(x.Args[0])
		tn := x.Args[1].(*EStr).Val
		t, ok := castTypes[tn]
		if !ok {
			switch tn {
			case "string":
				t = types.Typ[types.String]
			case "bool":
				t = types.Typ[types.Bool]
			default:
				return env.fail("istype: unknown type %s", tn)
			}
		}
		return env.boolVal(eq(app(SInt, "itag", v.V.(Sc).T), ex.cx.typeTag(t)))
	case "unbox":
		v := env.eval(x.Args[0])
		tn := x.Args[1].(*EStr).Val
		t, ok := castTypes[tn]
		if !ok {
			switch tn {
			case "string":
				t = types.Typ[types.String]
			case "bool":
				t = types.Typ[types.Bool]
			default:
				return env.fail("unbox: unknown type %s", tn)
			}
		}
		return SVal{V: ex.unbox(v.V.(Sc).T, t), T: t}
	case "sum":
		return env.sumCall(x, false)
	case "sumold":
		// sumold(a, lo, hi): sum over the pre-state contents of a, bounds evaluated now
		return env.sumCall(x, true)
	case "oldat":
		// oldat(a, i): pre-state content of a at the index i evaluated now
		if env.old == nil || len(x.Args) != 2 {
			return env.fail("oldat(a, i)")
		}
		a := env.eval(x.Args[0])
		i := env.evalInt(x.Args[1])
		if a.T != nil {
			if t, ok := a.T.Underlying().(*types.Slice); ok {
				sl := a.V.(Sc).T
				addr := ElemAddrV{Base: app(SRef, "sarr", sl), Idx: ex.iadd(ex.soff(sl), i), Elem: t.Elem()}
				return SVal{V: ex.load(env.old, addr, t.Elem()), T: t.Elem()}
			}
		}
		return env.fail("oldat of non-slice")
	case "fresh":
		// fresh(x): x is an object allocated after the pre-state
		v := env.eval(x.Args[0])
		ref, ok := env.objRef(v)
		if sc, isSc := v.V.(Sc); isSc && sc.T.Sort == SSlice {
			ref, ok = app(SRef, "sarr", sc.T), true
		}
		if !ok || env.old == nil {
			return env.fail("fresh() of non-reference")
		}
		ap := ex.varOf(env.old, "allocptr", SInt)
		return env.boolVal(and(app(SBool, "(_ is obj)", ref), app(SBool, ">=", app(SInt, "oid", ref), ap)))
	case "fits":
		// fits(v, n): the unsigned value v is representable on n bits (0 <= v < 2^n, n in 1..64); int mode only
		if len(x.Args) != 2 || ex.cx.mode != "int" {
			return env.fail("fits(v, n) in int mode")
		}
		v, n := env.eval(x.Args[0]), env.eval(x.Args[1])
		vs, ok1 := v.V.(Sc)
		ns, ok2 := n.V.(Sc)
		if !ok1 || !ok2 || vs.T.Sort != SInt || ns.T.Sort != SInt {
			return env.fail("fits of non-integers")
		}
		vt := ex.cx.name("fv", vs.T)
		nt := ex.cx.name("fn", ns.T)
		var alts []Term
		for k := 1; k <= 64; k++ {
			alts = append(alts, and(eq(nt, intLit(int64(k))), app(SBool, "<", vt, bigLit(pow2(k)))))
		}
		return env.boolVal(and(app(SBool, "<=", intLit(0), vt), or(alts...)))
	case "upper":
		v := env.eval(x.Args[0])
		sc, ok := v.V.(Sc)
		if !ok {
			return env.fail("upper of non-string")
		}
		if ex.cx.strMode {
			return SVal{V: Sc{app(SStr, "str.to_upper", sc.T)}, T: types.Typ[types.String]}
		}
		ex.cx.declFun("str$upper", []string{SInt}, SInt)
		return SVal{V: Sc{app(SInt, "str$upper", sc.T)}, T: types.Typ[types.String]}
	case "samearray":
		a, b := env.eval(x.Args[0]), env.eval(x.Args[1])
		as, aok := a.V.(Sc)
		bs, bok := b.V.(Sc)
		if !aok || !bok || as.T.Sort != SSlice || bs.T.Sort != SSlice {
			return env.fail("samearray of non-slices")
		}
		return env.boolVal(eq(app(SRef, "sarr", as.T), app(SRef, "sarr", bs.T)))
	case "off":
		v := env.eval(x.Args[0])
		if sc, ok := v.V.(Sc); ok && sc.T.Sort == SSlice {
			return SVal{V: Sc{ex.soff(sc.T)}, T: types.Typ[types.Int]}
		}
		return env.fail("off() of non-slice")
	case "raw":
		// raw(x, q): element of x's backing array at absolute index q
		v := env.eval(x.Args[0])
		q := env.evalInt(x.Args[1])
		if v.T != nil {
			if t, ok := v.T.Underlying().(*types.Slice); ok {
				addr := ElemAddrV{Base: app(SRef, "sarr", v.V.(Sc).T), Idx: q, Elem: t.Elem()}
				return SVal{V: ex.load(env.state(), addr, t.Elem()), T: t.Elem()}
			}
		}
		return env.fail("raw() of non-slice")
	case "loopentry":
		if env.loopEntry == nil {
			return env.fail("loopentry() outside loop invariant")
		}
		savedSt, savedOld := env.st, env.inOld
		env.st, env.inOld = env.loopEntry, false
		r := env.eval(x.Args[0])
		env.st, env.inOld = savedSt, savedOld
		return r
	}
	if t, ok := castTypes[id.Name]; ok && len(x.Args) == 1 {
		v := env.eval(x.Args[0])
		if v.Lit != nil {
			return SVal{V: Sc{env.litOfType(v.Lit, t)}, T: t}
		}
		from := v.T
		if from == nil || !isInteger(from) {
			from = types.Typ[types.Int]
		}
		if ex.cx.mode == "int" {
			// spec casts are value-preserving in int mode unless out of range
			return SVal{V: ex.convert(v.V, from, t), T: t}
		}
		return SVal{V: ex.convert(v.V, from, t), T: t}
	}
	if sf, ok := ex.cs.Specs[id.Name]; ok {
		if sf.RecvName != "" {
			// implicit receiver
			if th, ok := env.vars[sf.RecvName]; ok {
				return env.applySpec(sf, &th, x.Args)
			}
			if th, ok := env.vars["this"]; ok {
				return env.applySpec(sf, &th, x.Args)
			}
			return env.fail("spec %s needs a receiver", id.Name)
		}
		return env.applySpec(sf, nil, x.Args)
	}
	return env.fail("unknown function %s", id.Name)
}

func (env *SpecEnv) litOfType(n *big.Int, t types.Type) Term {
	if env.ex.cx.mode == "bv" {
		return bvLit(n, intWidth(t.Underlying().(*types.Basic)))
	}
	return bigLit(n)
}

func (env *SpecEnv) applySpec(sf *SpecFunc, recv *SVal, args []Expr) SVal {
	if sf.Uninterp {
		ex := env.ex
		var ts []Term
		var sorts []string
		for i, a := range args {
			v := env.eval(a)
			if v.Lit != nil {
				if t, ok := castTypes[sf.PTypes[i]]; ok {
					v = SVal{V: Sc{env.litOfType(v.Lit, t)}, T: t}
				} else {
					v = SVal{V: Sc{bigLit(v.Lit)}}
				}
			}
			sc, ok := v.V.(Sc)
			if !ok {
				return env.fail("uninterpreted %s: non-scalar argument", sf.Name)
			}
			ts = append(ts, sc.T)
			sorts = append(sorts, sc.T.Sort)
		}
		var rs string
		var rt types.Type
		switch sf.RetType {
		case "string":
			rs, rt = ex.cx.strSort(), types.Typ[types.String]
		case "bool":
			rs, rt = SBool, types.Typ[types.Bool]
		default:
			rs, rt = ex.cx.intS(), types.Typ[types.Int]
		}
		name := "spec$" + sf.Name
		ex.cx.declFun(name, sorts, rs)
		return SVal{V: Sc{app(rs, name, ts...)}, T: rt}
	}
	if env.depth > 20 {
		return env.fail("spec recursion too deep in %s", sf.Name)
	}
	if len(args) != len(sf.Params) {
		return env.fail("spec %s: %d arguments expected", sf.Name, len(sf.Params))
	}
	var vals []SVal
	for i, a := range args {
		v := env.eval(a)
		if v.Lit != nil {
			if t, ok := castTypes[sf.PTypes[i]]; ok {
				v = SVal{V: Sc{env.litOfType(v.Lit, t)}, T: t}
			}
		}
		vals = append(vals, v)
	}
	saved := env.vars
	env.vars = map[string]SVal{}
	for k, v := range saved {
		if strings.HasPrefix(k, "old$") {
			continue
		}
		_ = k
		_ = v
	}
	if recv != nil {
		env.vars[sf.RecvName] = *recv
	}
	for i, p := range sf.Params {
		env.vars[p] = vals[i]
	}
	savedFr := env.fr
	env.fr = nil
	env.depth++
	r := env.eval(sf.Body)
	env.depth--
	env.fr = savedFr
	env.vars = saved
	return r
}

// sum(a, lo, hi): sum of a[lo..hi) for an int slice; uninterpreted recursive
// function over array contents with unfolding axioms (lemmas L1/L2).
func (env *SpecEnv) sumCall(x *ECall, oldContent bool) SVal {
	ex := env.ex
	if len(x.Args) != 3 {
		return env.fail("sum(a, lo, hi)")
	}
	a := env.eval(x.Args[0])
	lo, hi := env.evalInt(x.Args[1]), env.evalInt(x.Args[2])
	if a.T == nil {
		return env.fail("sum of untyped value")
	}
	sl, ok := a.T.Underlying().(*types.Slice)
	if !ok {
		return env.fail("sum of non-slice")
	}
	es, _ := ex.cx.sortOf(sl.Elem())
	if es != SInt {
		return env.fail("sum over non-Int elements")
	}
	s := a.V.(Sc).T
	cst := env.state()
	if oldContent {
		if env.old == nil {
			return env.fail("sumold without pre-state")
		}
		cst = env.old
	}
	h := ex.heap(cst, contentHeapName(es), ex.contentSort(es))
	arr := sel(h, app(SRef, "sarr", s))
	off := ex.soff(s)
	ex.declSum()
	return SVal{V: Sc{app(SInt, "sum$", arr, ex.iadd(off, lo), ex.iadd(off, hi))}, T: types.Typ[types.Int]}
}

func (ex *Exec) declSum() {
	if ex.cx.declared["sum$"] {
		return
	}
	ex.cx.declFun("sum$", []string{"(Array Int Int)", SInt, SInt}, SInt)
	ex.cx.note("lemmas about sum$ (axioms, trusted; each provable by induction on the range): empty range sums to 0; L1 sum$(store(a,i,v),lo,hi) = sum$(a,lo,hi) - a[i] + v if lo <= i < hi, else sum$(a,lo,hi). Unfolding instances are stated explicitly where needed (loop `assume` clauses)")
	ex.cx.assume(Term{"(forall ((a!s (Array Int Int)) (lo!s Int) (hi!s Int)) (! (=> (<= hi!s lo!s) (= (sum$ a!s lo!s hi!s) 0)) :pattern ((sum$ a!s lo!s hi!s))))", SBool})
	ex.cx.assume(Term{"(forall ((a!s (Array Int Int)) (i!s Int) (v!s Int) (lo!s Int) (hi!s Int)) (! (= (sum$ (store a!s i!s v!s) lo!s hi!s) (ite (and (<= lo!s i!s) (< i!s hi!s)) (+ (- (sum$ a!s lo!s hi!s) (select a!s i!s)) v!s) (sum$ a!s lo!s hi!s))) :pattern ((sum$ (store a!s i!s v!s) lo!s hi!s))))", SBool})
}

// ---------------------------------------------------------------------
// modifies clauses

// havocLvalue havocs, in `post`, the location set denoted by the modifies item m
// (evaluated in the env's state, i.e. the pre-state of the call).
func (env *SpecEnv) havocLvalue(post *State, m Expr) {
	ex := env.ex
	switch x := m.(type) {
	case *EStr:
		// a whole heap, by name
		if srt, ok := ex.cx.heapSorts[x.Val]; ok {
			post.heaps[x.Val] = ex.freshHeap("hv_", x.Val, srt)
		}
	case *ESel:
		base := env.eval(x.X)
		ref, ok := env.objRef(base)
		if !ok {
			ex.cx.unsup("modifies: base of %s", exprString(m))
			return
		}
		if x.Name == "all" {
			// every field of the object
			if base.T != nil {
				if pt, ok := base.T.Underlying().(*types.Pointer); ok {
					if stt, ok := pt.Elem().Underlying().(*types.Struct); ok {
						for i := 0; i < stt.NumFields(); i++ {
							env.havocField(post, ref, stt.Field(i))
						}
						return
					}
				}
			}
		}
		if base.T != nil {
			if pt, ok := base.T.Underlying().(*types.Pointer); ok {
				if stt, ok := pt.Elem().Underlying().(*types.Struct); ok {
					for i := 0; i < stt.NumFields(); i++ {
						if stt.Field(i).Name() == x.Name {
							env.havocField(post, ref, stt.Field(i))
							return
						}
					}
				}
			}
		}
		if g, ok := ex.cs.Ghosts[x.Name]; ok {
			env.havocGhost(post, g, ref)
			return
		}
		ex.cx.unsup("modifies: unknown field in %s", exprString(m))
	case *EIndex:
		v := env.eval(x.X)
		if _, star := x.I.(*EStar); star {
			if ga, ok := v.V.(ghostArr); ok {
				env.havocGhost(post, ex.cs.Ghosts[ga.Name], ga.Ref)
				return
			}
			if v.T != nil {
				switch t := v.T.Underlying().(type) {
				case *types.Slice:
					sl := v.V.(Sc).T
					env.havocArrayRange(post, app(SRef, "sarr", sl), t.Elem(), ex.soff(sl), ex.iadd(ex.soff(sl), ex.slen(sl)))
					return
				case *types.Pointer:
					if at, ok := t.Elem().Underlying().(*types.Array); ok {
						ref, _ := ex.materialize(v.V)
						env.havocArray(post, ref, at.Elem())
						return
					}
				case *types.Map:
					hn, vn, ks, vs, ok := ex.mapHeaps(v.T)
					if ok {
						ref := v.V.(Sc).T
						h := ex.heap(post, hn, arrSort(SRef, arrSort(ks, SBool)))
						vh := ex.heap(post, vn, arrSort(SRef, arrSort(ks, vs)))
						ex.setHeap(post, hn, store(h, ref, ex.cx.fresh("mh", arrSort(ks, SBool))))
						ex.setHeap(post, vn, store(vh, ref, ex.cx.fresh("mv", arrSort(ks, vs))))
						return
					}
				}
			}
			ex.cx.unsup("modifies: %s", exprString(m))
			return
		}
		// single element
		if v.T != nil {
			if t, ok := v.T.Underlying().(*types.Slice); ok {
				s := v.V.(Sc).T
				i := env.evalInt(x.I)
				addr := ElemAddrV{Base: app(SRef, "sarr", s), Idx: ex.iadd(ex.soff(s), i), Elem: t.Elem()}
				ex.store(post, addr, ex.havocVal("mod", t.Elem()), t.Elem())
				return
			}
		}
		ex.cx.unsup("modifies: %s", exprString(m))
	case *EUn:
		if x.Op == "*" {
			v := env.eval(x.X)
			if v.T != nil {
				if pt, ok := v.T.Underlying().(*types.Pointer); ok {
					ex.store(post, v.V, ex.havocVal("mod", pt.Elem()), pt.Elem())
					return
				}
			}
		}
		ex.cx.unsup("modifies: %s", exprString(m))
	default:
		ex.cx.unsup("modifies: %s", exprString(m))
	}
}

func (env *SpecEnv) havocField(post *State, ref Term, f *types.Var) {
	ex := env.ex
	if _, ok := ex.cx.sortOf(f.Type()); ok {
		ex.storeField(post, ref, f, ex.havocVal("mod_"+f.Name(), f.Type()))
		return
	}
	sub := app(SRef, "fld", ref, intLit(int64(ex.cx.fieldID(f))))
	switch u := f.Type().Underlying().(type) {
	case *types.Struct:
		for i := 0; i < u.NumFields(); i++ {
			env.havocField(post, sub, u.Field(i))
		}
	case *types.Array:
		env.havocArray(post, sub, u.Elem())
	}
}

func (env *SpecEnv) havocArray(post *State, base Term, et types.Type) {
	env.havocArrayRange(post, base, et, Term{}, Term{})
}

// havocArrayRange havocs elements [lo, hi) of the array object (all of it when lo is empty).
func (env *SpecEnv) havocArrayRange(post *State, base Term, et types.Type, lo, hi Term) {
	ex := env.ex
	es, ok := ex.cx.sortOf(et)
	if !ok {
		// array of structs: havoc the (nested) field heaps at elem(base, *)
		if stt, ok := et.Underlying().(*types.Struct); ok {
			ex.leafFields(stt, 0, func(f *types.Var, depth int) {
				fs, _ := ex.cx.sortOf(f.Type())
				name := ex.fieldHeapName(f)
				h := ex.heap(post, name, arrSort(SRef, fs))
				nh := ex.freshHeap("hm_", name, h.Sort)
				m := elemMatch(Term{"r!z", SRef}, Term{base.S, fmt.Sprintf("Ref#%d", depth)})
				ex.cx.assume(Term{fmt.Sprintf("(forall ((r!z Ref)) (! (=> (not %s) (= (select %s r!z) (select %s r!z))) :pattern ((select %s r!z))))", m.S, nh.S, h.S, nh.S), SBool})
				ex.setHeap(post, name, nh)
			})
		}
		return
	}
	name := contentHeapName(es)
	h := ex.heap(post, name, ex.contentSort(es))
	fresh := ex.cx.fresh("mod_arr", arrSort(ex.cx.intS(), es))
	if es == SInt && isInteger(et) {
		lo, hi := typeRange(et)
		ex.cx.assume(Term{fmt.Sprintf("(forall ((i!r Int)) (! (and (<= %s (select %s i!r)) (<= (select %s i!r) %s)) :pattern ((select %s i!r))))", bigLit(lo).S, fresh.S, fresh.S, bigLit(hi).S, fresh.S), SBool})
	}
	if lo.S != "" {
		is := ex.cx.intS()
		q := Term{"q!r", is}
		outside := or(ex.ilt(q, lo), ex.ile(hi, q))
		oldArr := ex.cx.name("oldarr", sel(h, base))
		ex.cx.assume(Term{fmt.Sprintf("(forall ((q!r %s)) (! (=> %s (= (select %s q!r) (select %s q!r))) :pattern ((select %s q!r))))", is, outside.S, fresh.S, oldArr.S, fresh.S), SBool})
	}
	ex.setHeap(post, name, ex.cx.name("h", store(h, base, fresh)))
}

func (env *SpecEnv) havocGhost(post *State, g *GhostField, ref Term) {
	ex := env.ex
	switch g.Kind {
	case "int":
		h := ex.heap(post, "G!"+g.Name, arrSort(SRef, ex.cx.intS()))
		ex.setHeap(post, "G!"+g.Name, store(h, ref, ex.cx.fresh("g_"+g.Name, ex.cx.intS())))
	case "bool":
		h := ex.heap(post, "G!"+g.Name, arrSort(SRef, SBool))
		ex.setHeap(post, "G!"+g.Name, store(h, ref, ex.cx.fresh("g_"+g.Name, SBool)))
	case "ref":
		h := ex.heap(post, "G!"+g.Name, arrSort(SRef, SRef))
		ex.setHeap(post, "G!"+g.Name, store(h, ref, ex.cx.fresh("g_"+g.Name, SRef)))
	case "bytes", "ints":
		es := env.ghostElemSort(g.Kind)
		h := ex.heap(post, "G!"+g.Name, arrSort(SRef, arrSort(ex.cx.intS(), es)))
		ex.setHeap(post, "G!"+g.Name, store(h, ref, ex.cx.fresh("g_"+g.Name, arrSort(ex.cx.intS(), es))))
		hl := ex.heap(post, "G!"+g.Name+"#len", arrSort(SRef, ex.cx.intS()))
		nl := ex.cx.fresh("g_"+g.Name+"_len", ex.cx.intS())
		if ex.cx.mode == "int" {
			ex.cx.assume(app(SBool, "<=", intLit(0), nl))
		}
		ex.setHeap(post, "G!"+g.Name+"#len", store(hl, ref, nl))
	}
}

// heapsOfLvalue: static heap names touched by a modifies item (for loop havoc).
func (ex *Exec) heapsOfLvalue(fc *FuncContract, m Expr) map[string]string {
	out := map[string]string{}
	var typeOf func(e Expr) types.Type
	typeOf = func(e Expr) types.Type {
		switch x := e.(type) {
		case *EIdent:
			if fc.ParamTypes != nil {
				return fc.ParamTypes[x.Name]
			}
		case *ESel:
			bt := typeOf(x.X)
			if bt == nil {
				return nil
			}
			if pt, ok := bt.Underlying().(*types.Pointer); ok {
				if stt, ok := pt.Elem().Underlying().(*types.Struct); ok {
					for i := 0; i < stt.NumFields(); i++ {
						if stt.Field(i).Name() == x.Name {
							return stt.Field(i).Type()
						}
					}
				}
			}
		case *EIndex:
			bt := typeOf(x.X)
			if bt == nil {
				return nil
			}
			switch t := bt.Underlying().(type) {
			case *types.Slice:
				return t.Elem()
			case *types.Array:
				return t.Elem()
			}
		case *EUn:
			if x.Op == "*" {
				if bt := typeOf(x.X); bt != nil {
					if pt, ok := bt.Underlying().(*types.Pointer); ok {
						return pt.Elem()
					}
				}
			}
		}
		return nil
	}
	addType := func(t types.Type) {
		ms := newModSet()
		ex.modsOfType(t, ms, false)
		for n, s := range ms.heaps {
			out[n] = s
		}
	}
	switch x := m.(type) {
	case *EStr:
		srt, ok := ex.cx.heapSorts[x.Val]
		if !ok {
			switch {
			case strings.HasPrefix(x.Val, "A!"):
				es := strings.TrimPrefix(x.Val, "A!")
				srt = ex.contentSort(es)
			default:
				return nil
			}
		}
		out[x.Val] = srt
		return out
	case *ESel:
		if g, ok := ex.cs.Ghosts[x.Name]; ok {
			if bt := typeOf(m); bt == nil {
				env := &SpecEnv{ex: ex}
				switch g.Kind {
				case "int":
					out["G!"+g.Name] = arrSort(SRef, ex.cx.intS())
				case "bool":
					out["G!"+g.Name] = arrSort(SRef, SBool)
				case "ref":
					out["G!"+g.Name] = arrSort(SRef, SRef)
				default:
					out["G!"+g.Name] = arrSort(SRef, arrSort(ex.cx.intS(), env.ghostElemSort(g.Kind)))
					out["G!"+g.Name+"#len"] = arrSort(SRef, ex.cx.intS())
				}
				return out
			}
		}
		bt := typeOf(x.X)
		if bt == nil {
			return nil
		}
		var stt *types.Struct
		if pt, ok := bt.Underlying().(*types.Pointer); ok {
			stt, _ = pt.Elem().Underlying().(*types.Struct)
		} else {
			stt, _ = bt.Underlying().(*types.Struct) // nested struct field
		}
		if stt == nil {
			return nil
		}
		for i := 0; i < stt.NumFields(); i++ {
			f := stt.Field(i)
			if f.Name() == x.Name || x.Name == "all" {
				if s, ok := ex.cx.sortOf(f.Type()); ok {
					out[ex.fieldHeapName(f)] = arrSort(SRef, s)
				} else {
					addType(f.Type())
				}
			}
		}
		return out
	case *EIndex:
		if sel, ok := x.X.(*ESel); ok {
			if g, ok := ex.cs.Ghosts[sel.Name]; ok && typeOf(x.X) == nil {
				env := &SpecEnv{ex: ex}
				out["G!"+g.Name] = arrSort(SRef, arrSort(ex.cx.intS(), env.ghostElemSort(g.Kind)))
				out["G!"+g.Name+"#len"] = arrSort(SRef, ex.cx.intS())
				return out
			}
		}
		bt := typeOf(x.X)
		if bt == nil {
			return nil
		}
		switch t := bt.Underlying().(type) {
		case *types.Slice:
			if es, ok := ex.cx.sortOf(t.Elem()); ok {
				out[contentHeapName(es)] = ex.contentSort(es)
			} else {
				addType(t.Elem())
			}
			return out
		case *types.Map:
			hn, vn, ks, vs, ok := ex.mapHeaps(bt)
			if ok {
				out[hn] = arrSort(SRef, arrSort(ks, SBool))
				out[vn] = arrSort(SRef, arrSort(ks, vs))
				return out
			}
		case *types.Pointer:
			if at, ok := t.Elem().Underlying().(*types.Array); ok {
				if es, ok := ex.cx.sortOf(at.Elem()); ok {
					out[contentHeapName(es)] = ex.contentSort(es)
					return out
				}
			}
		}
		return nil
	case *EUn:
		if x.Op == "*" {
			if t := typeOf(m); t != nil {
				if srt, ok := ex.cx.sortOf(t); ok {
					out[cellHeapName(srt)] = arrSort(SRef, srt)
					// the pointer may designate a field: every field heap of that sort
					out["*ptr:"+srt] = srt
					return out
				}
			}
		}
	}
	return nil
}

func exprString(e Expr) string {
	switch x := e.(type) {
	case *EIdent:
		return x.Name
	case *ENum:
		return x.Val
	case *EStr:
		return "\"" + x.Val + "\""
	case *EBin:
		return "(" + exprString(x.L) + " " + x.Op + " " + exprString(x.R) + ")"
	case *EUn:
		return x.Op + exprString(x.X)
	case *ESel:
		return exprString(x.X) + "." + x.Name
	case *EIndex:
		return exprString(x.X) + "[" + exprString(x.I) + "]"
	case *ESlice:
		return exprString(x.X) + "[:]"
	case *ECall:
		return exprString(x.Fn) + "(...)"
	case *EOld:
		return "old(" + exprString(x.X) + ")"
	case *EQuant:
		return "forall/exists ..."
	case *EStar:
		return "*"
	case *ECond:
		return "(?:)"
	}
	return "?"
}

func (env *SpecEnv) specDivFacts(x, y Term) {
	if _, lit := litValue(y); lit {
		return
	}
	if strings.Contains(x.S, "!q") || strings.Contains(y.S, "!q") {
		return
	}
	cx := env.ex.cx
	q := cx.name("q", app(SInt, "div", x, y))
	r := cx.name("m", app(SInt, "mod", x, y))
	cx.assume(implies(app(SBool, ">", y, intLit(0)), and(
		eq(x, app(SInt, "+", cx.mul(y, q), r)),
		app(SBool, "<=", intLit(0), r), app(SBool, "<", r, y),
		implies(app(SBool, ">=", x, intLit(0)), app(SBool, ">=", q, intLit(0))))))
}
