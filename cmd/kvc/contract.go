package main

// Contract files: comment-only Go files (//go:build verif) whose lines start
// with "//@". Grammar (one item per line; a line starting with "//@" followed
// by 8+ blanks continues the previous clause):
//
//   //@ ghost <Type> <name> <int|bool|bytes|ints|ref>
//   //@ spec [(<recv> <Type>)] name(<p> <type>, ...) = <expr>
//   //@ func [(*T)|(T)] Name            or   //@ iface <pkg.Type> Method(p, q) (r0, r1)
//   //@   mode int|bv
//   //@   props C14 C17
//   //@   requires|ensures|panics <expr>  [#label] [@C14 @C17]
//   //@   nopanic | inline | trusted
//   //@   modifies <lvalue>, <lvalue>, ...
//   //@   loop <N> invariant|decreases|modifies <expr>
//   //@   assume <expr>          (listed as an assumption in the evidence)
//   //@   opt <key> <value>

import (
	"bufio"
	"fmt"
	"go/types"
	"os"
	"regexp"
	"strconv"
	"strings"
)

type Clause struct {
	Kind  string // requires ensures panics invariant decreases assume join
	Expr  Expr
	Src   string
	Label string
	Props []string
	Loop  int
	Line  int
	File  string
	Target string // atcall: substring of the callee name
}

// GhostLocal: a history variable, initialised at function entry and updated
// by aftercall clauses only; havoced at every loop head (invariants restate it).
type GhostLocal struct {
	Name string
	Type string // bool | int
	Init Expr
}

type FuncContract struct {
	Missing  bool   // the function named by the contract does not exist in the current tree
	Key      string // "(*T).Name", "Name", "iface pkg.Type.Method"
	Pkg      string
	IsIface  bool
	IfaceParams, IfaceResults []string
	Mode     string
	Props    []string
	Requires []*Clause
	Ensures  []*Clause
	Panics   []*Clause
	NoPanic  bool
	Inline   bool
	Trusted  bool
	Modifies []Expr
	ModSrc   []string
	HasModifies bool
	LoopInv  map[int][]*Clause
	LoopDec  map[int]*Clause
	LoopMod  map[int][]Expr
	LoopAssume map[int][]*Clause
	LoopExit map[int][]*Clause
	Decreases *Clause
	GhostDefs []*Clause
	AtReturn []*Clause
	AtCall   []*Clause // call-site assertions: `atcall <callee> <expr>` (locals and arg0..argN in scope)
	AtAlloc  []*Clause // `atalloc <expr>`: at every make([]T, n) of the function body (alloclen = n in scope)
	GhostLocals []*GhostLocal // history variables of the function under verification
	AfterCall   []*Clause     // `aftercall <callee> set <ghostlocal> = <expr>` (result0.., arg0.. in scope)
	Assumes  []*Clause
	Opts     map[string]string
	Line     int
	File     string
	ParamTypes map[string]types.Type
}

type SpecFunc struct {
	Name     string
	RecvName string
	RecvType string
	Params   []string
	PTypes   []string
	Body     Expr
	Src      string
	Uninterp bool
	RetType  string
}

type GhostField struct {
	Type string // e.g. io.Writer (applies to any interface value when "any")
	Name string
	Kind string // int bool bytes ints ref
}

type Contracts struct {
	Funcs  map[string]*FuncContract // key: pkgpath + " " + Key
	Specs  map[string]*SpecFunc     // key: pkgname.name (also bare name)
	Ghosts map[string]*GhostField
	Files  []string
	Lemmas []*Lemma
}

type Lemma struct {
	Name  string
	Pkg   string
	Mode  string
	Vars  []string
	VTypes []string
	Hyps  []*Clause
	Goal  *Clause
	Props []string
}

var labelRe = regexp.MustCompile(`\s#([A-Za-z0-9_\-:.]+)`)
var propRe = regexp.MustCompile(`\s@(C[0-9]+)`)

func parseContractFile(path, pkgPath string, cs *Contracts) error {
	f, err := os.Open(path)
	if err != nil {
		return err
	}
	defer f.Close()
	cs.Files = append(cs.Files, path)
	sc := bufio.NewScanner(f)
	sc.Buffer(make([]byte, 1<<20), 1<<20)
	type rawLine struct {
		text string
		line int
	}
	var lines []rawLine
	ln := 0
	for sc.Scan() {
		ln++
		t := sc.Text()
		if !strings.HasPrefix(t, "//@") {
			continue
		}
		body := t[3:]
		trim := strings.TrimSpace(body)
		if trim == "" || strings.HasPrefix(trim, "--") {
			continue
		}
		// continuation: 8+ leading blanks
		if len(lines) > 0 && strings.HasPrefix(body, "        ") {
			lines[len(lines)-1].text += " " + trim
			continue
		}
		lines = append(lines, rawLine{trim, ln})
	}
	var cur *FuncContract
	var curLemma *Lemma
	for _, rl := range lines {
		t := rl.text
		word, rest := splitWord(t)
		mkClause := func(kind, src string) (*Clause, error) {
			cl := &Clause{Kind: kind, Line: rl.line, File: path}
			if m := labelRe.FindStringSubmatch(" " + src); m != nil {
				cl.Label = m[1]
			}
			for _, m := range propRe.FindAllStringSubmatch(" "+src, -1) {
				cl.Props = append(cl.Props, m[1])
			}
			src = propRe.ReplaceAllString(" "+src, "")
			src = labelRe.ReplaceAllString(src, "")
			src = strings.TrimSpace(src)
			cl.Src = src
			e, err := parseExpr(src)
			if err != nil {
				return nil, fmt.Errorf("%s:%d: %v in %q", path, rl.line, err, src)
			}
			cl.Expr = e
			return cl, nil
		}
		switch word {
		case "ghost":
			p := strings.Fields(rest)
			if len(p) != 3 {
				return fmt.Errorf("%s:%d: bad ghost", path, rl.line)
			}
			cs.Ghosts[p[1]] = &GhostField{Type: p[0], Name: p[1], Kind: p[2]}
			cur, curLemma = nil, nil
		case "spec":
			sf, err := parseSpecFunc(rest)
			if err != nil {
				return fmt.Errorf("%s:%d: %v", path, rl.line, err)
			}
			cs.Specs[sf.Name] = sf
			cur, curLemma = nil, nil
		case "uninterp":
			// uninterp name(a int, b string) string : an uninterpreted spec function
			r := strings.TrimSpace(rest)
			j := strings.LastIndex(r, ")")
			name, params, ptypes, err := parseSig(r[:j+1])
			if err != nil {
				return fmt.Errorf("%s:%d: %v", path, rl.line, err)
			}
			cs.Specs[name] = &SpecFunc{Name: name, Params: params, PTypes: ptypes, Uninterp: true, RetType: strings.TrimSpace(r[j+1:])}
			cur, curLemma = nil, nil
		case "lemma":
			// lemma name(x int, y int)
			name, params, ptypes, err := parseSig(rest)
			if err != nil {
				return fmt.Errorf("%s:%d: %v", path, rl.line, err)
			}
			curLemma = &Lemma{Name: name, Pkg: pkgPath, Vars: params, VTypes: ptypes, Mode: "int"}
			cs.Lemmas = append(cs.Lemmas, curLemma)
			cur = nil
		case "func":
			cur = &FuncContract{Key: normFuncKey(rest), Pkg: pkgPath, LoopInv: map[int][]*Clause{}, LoopDec: map[int]*Clause{},
				LoopMod: map[int][]Expr{}, LoopAssume: map[int][]*Clause{}, LoopExit: map[int][]*Clause{}, Opts: map[string]string{}, Line: rl.line, File: path, Mode: "int"}
			cs.Funcs[pkgPath+" "+cur.Key] = cur
			curLemma = nil
		case "iface":
			// iface io.Writer Write(p) (n, err)
			typ, r2 := splitWord(rest)
			name, params, results, err := parseIfaceSig(r2)
			if err != nil {
				return fmt.Errorf("%s:%d: %v", path, rl.line, err)
			}
			cur = &FuncContract{Key: "iface " + typ + "." + name, Pkg: pkgPath, IsIface: true, IfaceParams: params, IfaceResults: results,
				LoopInv: map[int][]*Clause{}, LoopDec: map[int]*Clause{}, LoopMod: map[int][]Expr{}, LoopAssume: map[int][]*Clause{}, LoopExit: map[int][]*Clause{}, Opts: map[string]string{}, Line: rl.line, File: path, Mode: "int"}
			cs.Funcs["iface "+typ+"."+name] = cur
			curLemma = nil
		default:
			if curLemma != nil {
				switch word {
				case "mode":
					curLemma.Mode = strings.TrimSpace(rest)
				case "props":
					curLemma.Props = strings.Fields(rest)
				case "requires":
					cl, err := mkClause("requires", rest)
					if err != nil {
						return err
					}
					curLemma.Hyps = append(curLemma.Hyps, cl)
				case "ensures":
					cl, err := mkClause("ensures", rest)
					if err != nil {
						return err
					}
					curLemma.Goal = cl
				default:
					return fmt.Errorf("%s:%d: unknown lemma item %q", path, rl.line, word)
				}
				continue
			}
			if cur == nil {
				return fmt.Errorf("%s:%d: clause %q outside func", path, rl.line, word)
			}
			switch word {
			case "mode":
				cur.Mode = strings.TrimSpace(rest)
			case "props":
				cur.Props = strings.Fields(rest)
			case "nopanic":
				cur.NoPanic = true
			case "inline":
				cur.Inline = true
			case "trusted":
				cur.Trusted = true
			case "opt":
				k, v := splitWord(rest)
				cur.Opts[k] = strings.TrimSpace(v)
			case "decreases":
				cl, err := mkClause("decreases", rest)
				if err != nil {
					return err
				}
				cur.Decreases = cl
			case "atreturn":
				cl, err := mkClause("atreturn", rest)
				if err != nil {
					return err
				}
				cur.AtReturn = append(cur.AtReturn, cl)
			case "ghostlocal":
				// ghostlocal name type = expr
				nm, r1 := splitWord(rest)
				ty, r2 := splitWord(r1)
				r2 = strings.TrimSpace(r2)
				if !strings.HasPrefix(r2, "=") || (ty != "bool" && ty != "int") {
					return fmt.Errorf("%s:%d: ghostlocal <name> bool|int = <expr>", path, rl.line)
				}
				e, err := parseExpr(strings.TrimSpace(r2[1:]))
				if err != nil {
					return fmt.Errorf("%s:%d: %v", path, rl.line, err)
				}
				cur.GhostLocals = append(cur.GhostLocals, &GhostLocal{Name: nm, Type: ty, Init: e})
			case "aftercall":
				// aftercall <callee> set <name> = <expr>
				tgt, r1 := splitWord(rest)
				kw, r2 := splitWord(r1)
				nm, r3 := splitWord(r2)
				r3 = strings.TrimSpace(r3)
				if kw != "set" || !strings.HasPrefix(r3, "=") {
					return fmt.Errorf("%s:%d: aftercall <callee> set <ghostlocal> = <expr>", path, rl.line)
				}
				cl, err := mkClause("aftercall", strings.TrimSpace(r3[1:]))
				if err != nil {
					return err
				}
				cl.Target = tgt
				cl.Label = nm
				cur.AfterCall = append(cur.AfterCall, cl)
			case "atalloc":
				cl, err := mkClause("atalloc", rest)
				if err != nil {
					return err
				}
				cur.AtAlloc = append(cur.AtAlloc, cl)
			case "atcall":
				tgt, e := splitWord(rest)
				cl, err := mkClause("atcall", e)
				if err != nil {
					return err
				}
				cl.Target = tgt
				cur.AtCall = append(cur.AtCall, cl)
			case "ghostdef":
				cl, err := mkClause("ghostdef", rest)
				if err != nil {
					return err
				}
				cur.GhostDefs = append(cur.GhostDefs, cl)
			case "requires", "ensures", "panics", "assume":
				cl, err := mkClause(word, rest)
				if err != nil {
					return err
				}
				switch word {
				case "requires":
					cur.Requires = append(cur.Requires, cl)
				case "ensures":
					cur.Ensures = append(cur.Ensures, cl)
				case "panics":
					cur.Panics = append(cur.Panics, cl)
				case "assume":
					cur.Assumes = append(cur.Assumes, cl)
				}
			case "modifies":
				cur.HasModifies = true
				if strings.TrimSpace(rest) == "nothing" {
					break
				}
				for _, item := range splitTop(rest, ',') {
					item = strings.TrimSpace(item)
					if item == "" {
						continue
					}
					e, err := parseExpr(item)
					if err != nil {
						return fmt.Errorf("%s:%d: %v in %q", path, rl.line, err, item)
					}
					cur.Modifies = append(cur.Modifies, e)
					cur.ModSrc = append(cur.ModSrc, item)
				}
			case "loop":
				ns, r2 := splitWord(rest)
				n, err := strconv.Atoi(ns)
				if err != nil {
					return fmt.Errorf("%s:%d: bad loop ordinal", path, rl.line)
				}
				kind, r3 := splitWord(r2)
				switch kind {
				case "invariant":
					cl, err := mkClause("invariant", r3)
					if err != nil {
						return err
					}
					cl.Loop = n
					cur.LoopInv[n] = append(cur.LoopInv[n], cl)
				case "exitinvariant":
					cl, err := mkClause("exitinvariant", r3)
					if err != nil {
						return err
					}
					cl.Loop = n
					cur.LoopExit[n] = append(cur.LoopExit[n], cl)
				case "assume":
					cl, err := mkClause("assume", r3)
					if err != nil {
						return err
					}
					cl.Loop = n
					cur.LoopAssume[n] = append(cur.LoopAssume[n], cl)
				case "decreases":
					cl, err := mkClause("decreases", r3)
					if err != nil {
						return err
					}
					cl.Loop = n
					cur.LoopDec[n] = cl
				case "modifies":
					for _, item := range splitTop(r3, ',') {
						e, err := parseExpr(strings.TrimSpace(item))
						if err != nil {
							return fmt.Errorf("%s:%d: %v", path, rl.line, err)
						}
						cur.LoopMod[n] = append(cur.LoopMod[n], e)
					}
				default:
					return fmt.Errorf("%s:%d: unknown loop clause %q", path, rl.line, kind)
				}
			default:
				return fmt.Errorf("%s:%d: unknown clause %q", path, rl.line, word)
			}
		}
	}
	return nil
}

func splitWord(s string) (string, string) {
	s = strings.TrimSpace(s)
	i := strings.IndexAny(s, " \t")
	if i < 0 {
		return s, ""
	}
	return s[:i], strings.TrimSpace(s[i+1:])
}

func normFuncKey(s string) string {
	s = strings.TrimSpace(s)
	s = strings.ReplaceAll(s, " ", "")
	// "(*T)Name" -> "(*T).Name"
	if strings.HasPrefix(s, "(") {
		i := strings.Index(s, ")")
		return s[:i+1] + "." + strings.TrimPrefix(s[i+1:], ".")
	}
	return s
}

func splitTop(s string, sep byte) []string {
	var out []string
	depth := 0
	start := 0
	for i := 0; i < len(s); i++ {
		switch s[i] {
		case '(', '[':
			depth++
		case ')', ']':
			depth--
		default:
			if s[i] == sep && depth == 0 {
				out = append(out, s[start:i])
				start = i + 1
			}
		}
	}
	out = append(out, s[start:])
	return out
}

// parseSig parses "name(a int, b []byte)".
func parseSig(s string) (name string, params, ptypes []string, err error) {
	i := strings.Index(s, "(")
	j := strings.LastIndex(s, ")")
	if i < 0 || j < i {
		return "", nil, nil, fmt.Errorf("bad signature %q", s)
	}
	name = strings.TrimSpace(s[:i])
	for _, p := range splitTop(s[i+1:j], ',') {
		p = strings.TrimSpace(p)
		if p == "" {
			continue
		}
		n, t := splitWord(p)
		params = append(params, n)
		ptypes = append(ptypes, t)
	}
	return
}

func parseIfaceSig(s string) (name string, params, results []string, err error) {
	i := strings.Index(s, "(")
	j := strings.Index(s, ")")
	if i < 0 || j < i {
		return "", nil, nil, fmt.Errorf("bad iface signature %q", s)
	}
	name = strings.TrimSpace(s[:i])
	for _, p := range strings.Split(s[i+1:j], ",") {
		if p = strings.TrimSpace(p); p != "" {
			params = append(params, p)
		}
	}
	rest := strings.TrimSpace(s[j+1:])
	if strings.HasPrefix(rest, "(") {
		rest = strings.TrimSuffix(strings.TrimPrefix(rest, "("), ")")
		for _, p := range strings.Split(rest, ",") {
			if p = strings.TrimSpace(p); p != "" {
				results = append(results, p)
			}
		}
	}
	return
}

// parseSpecFunc parses "[(this *T)] name(a int) = expr".
func parseSpecFunc(s string) (*SpecFunc, error) {
	sf := &SpecFunc{}
	s = strings.TrimSpace(s)
	if strings.HasPrefix(s, "(") {
		i := strings.Index(s, ")")
		rn, rt := splitWord(s[1:i])
		sf.RecvName, sf.RecvType = rn, rt
		s = strings.TrimSpace(s[i+1:])
	}
	eqi := strings.Index(s, " = ")
	if eqi < 0 {
		return nil, fmt.Errorf("spec without body: %q", s)
	}
	name, params, ptypes, err := parseSig(s[:eqi])
	if err != nil {
		return nil, err
	}
	sf.Name, sf.Params, sf.PTypes = name, params, ptypes
	sf.Src = strings.TrimSpace(s[eqi+3:])
	e, err := parseExpr(sf.Src)
	if err != nil {
		return nil, fmt.Errorf("spec %s: %v", name, err)
	}
	sf.Body = e
	return sf, nil
}
