package main

import (
	"fmt"
	"go/types"

	"golang.org/x/tools/go/ssa"
)

type loopCtx struct {
	head   *ssa.BasicBlock
	ord    int
	entry  *State // state at loop entry (before havoc)
	headSt *State // havoced state at the head (invariant assumed)
	dec0   Term   // variant at head
	hasDec bool
}

// modSet: what a set of blocks may modify.
type modSet struct {
	locals map[*ssa.Alloc]bool
	heaps  map[string]string // name -> sort
	alloc  bool
	maps   bool
	all    bool // unknown effects: havoc every known heap
}

func newModSet() *modSet { return &modSet{locals: map[*ssa.Alloc]bool{}, heaps: map[string]string{}} }

// scanMods computes a conservative modified set for the given blocks.
func (ex *Exec) scanMods(fn *ssa.Function, blocks map[*ssa.BasicBlock]bool, ms *modSet, depth int) {
	for _, b := range fn.Blocks {
		if blocks != nil && !blocks[b] {
			continue
		}
		for _, ins := range b.Instrs {
			switch x := ins.(type) {
			case *ssa.Alloc:
				et := x.Type().Underlying().(*types.Pointer).Elem()
				if ex.isDirect(x) {
					ms.locals[x] = true
				} else {
					ms.alloc = true
					ex.modsOfType(et, ms)
				}
			case *ssa.Store:
				ex.modsOfAddr(x.Addr, x.Val.Type(), ms)
			case *ssa.MapUpdate:
				ms.maps = true
			case *ssa.MakeSlice:
				ms.alloc = true
				et := x.Type().Underlying().(*types.Slice).Elem()
				if es, ok := ex.cx.sortOf(et); ok {
					ms.heaps[contentHeapName(es)] = ex.contentSort(es)
				} else {
					ex.modsOfType(et, ms)
				}
			case *ssa.MakeMap, *ssa.MakeClosure, *ssa.MakeInterface:
				ms.alloc = true
			case *ssa.Call:
				ex.modsOfCall(&x.Call, ms, depth)
			case *ssa.Defer:
				ex.modsOfCall(&x.Call, ms, depth)
			case *ssa.Go:
				ms.alloc = true
			case *ssa.RunDefers:
				ms.all = true
			}
		}
	}
}

func (ex *Exec) modsOfType(t types.Type, ms *modSet) {
	switch u := t.Underlying().(type) {
	case *types.Struct:
		for i := 0; i < u.NumFields(); i++ {
			f := u.Field(i)
			if s, ok := ex.cx.sortOf(f.Type()); ok {
				ms.heaps[ex.fieldHeapName(f)] = arrSort(SRef, s)
			} else {
				ex.modsOfType(f.Type(), ms)
			}
		}
	case *types.Array:
		if es, ok := ex.cx.sortOf(u.Elem()); ok {
			ms.heaps[contentHeapName(es)] = ex.contentSort(es)
		} else {
			ex.modsOfType(u.Elem(), ms)
		}
	default:
		if s, ok := ex.cx.sortOf(t); ok {
			ms.heaps[cellHeapName(s)] = arrSort(SRef, s)
		}
	}
}

func (ex *Exec) modsOfAddr(addr ssa.Value, vt types.Type, ms *modSet) {
	switch a := addr.(type) {
	case *ssa.Alloc:
		if ex.isDirect(a) {
			ms.locals[a] = true
			return
		}
		ex.modsOfType(vt, ms)
	case *ssa.FieldAddr:
		stt := a.X.Type().Underlying().(*types.Pointer).Elem().Underlying().(*types.Struct)
		f := stt.Field(a.Field)
		if s, ok := ex.cx.sortOf(f.Type()); ok {
			ms.heaps[ex.fieldHeapName(f)] = arrSort(SRef, s)
		} else {
			ex.modsOfType(f.Type(), ms)
		}
	case *ssa.IndexAddr:
		if s, ok := ex.cx.sortOf(vt); ok {
			ms.heaps[contentHeapName(s)] = ex.contentSort(s)
		} else {
			ex.modsOfType(vt, ms)
		}
	default:
		// pointer of unknown shape: cell heap and (conservatively) the field heaps of that sort
		if s, ok := ex.cx.sortOf(vt); ok {
			ms.heaps[cellHeapName(s)] = arrSort(SRef, s)
			if _, isFV := addr.(*ssa.FreeVar); !isFV {
				ms.all = ms.all || false
			}
		} else {
			ex.modsOfType(vt, ms)
		}
	}
}

func (ex *Exec) modsOfCall(c *ssa.CallCommon, ms *modSet, depth int) {
	if c.IsInvoke() {
		fc := ex.ifaceContract(c)
		if fc == nil {
			ex.unmodelledMods(c, ms)
			return
		}
		ex.modsOfContract(fc, ms)
		return
	}
	switch callee := c.Value.(type) {
	case *ssa.Builtin:
		switch callee.Name() {
		case "copy", "append":
			if len(c.Args) > 0 {
				if sl, ok := c.Args[0].Type().Underlying().(*types.Slice); ok {
					if es, ok := ex.cx.sortOf(sl.Elem()); ok {
						ms.heaps[contentHeapName(es)] = ex.contentSort(es)
					} else {
						ex.modsOfType(sl.Elem(), ms)
					}
				}
			}
			ms.alloc = true
		case "clear":
			ms.all = true
		}
	case *ssa.Function:
		if _, ok := ex.libModel(callee); ok {
			ex.libMods(callee, c, ms)
			return
		}
		if fc := ex.contractOf(callee); fc != nil && !fc.Inline {
			ex.modsOfContract(fc, ms)
			return
		}
		if ex.shouldInline(callee) && depth < 4 {
			ex.scanMods(callee, nil, ms, depth+1)
			// locals of the callee are irrelevant
			return
		}
		ex.unmodelledMods(c, ms)
	case *ssa.MakeClosure:
		if depth < 4 {
			ex.scanMods(callee.Fn.(*ssa.Function), nil, ms, depth+1)
			// captured cells written by the closure
			fn := callee.Fn.(*ssa.Function)
			for i, fv := range fn.FreeVars {
				if a, ok := callee.Bindings[i].(*ssa.Alloc); ok && ex.isDirect(a) {
					for _, r := range *fv.Referrers() {
						if s, ok := r.(*ssa.Store); ok && s.Addr == ssa.Value(fv) {
							ms.locals[a] = true
						}
					}
				}
			}
		} else {
			ms.all = true
		}
	default:
		ex.unmodelledMods(c, ms)
	}
}

// unmodelledMods: trusted-base rule T5 — an unmodelled callee may write the
// backing arrays of its slice arguments and nothing else that is tracked.
func (ex *Exec) unmodelledMods(c *ssa.CallCommon, ms *modSet) {
	for _, a := range c.Args {
		if sl, ok := a.Type().Underlying().(*types.Slice); ok {
			if es, ok := ex.cx.sortOf(sl.Elem()); ok {
				ms.heaps[contentHeapName(es)] = ex.contentSort(es)
			}
		}
	}
	ms.alloc = true
}

func (ex *Exec) modsOfContract(fc *FuncContract, ms *modSet) {
	ms.alloc = true
	if !fc.HasModifies {
		ms.all = true
		return
	}
	for _, m := range fc.Modifies {
		names := ex.heapsOfLvalue(fc, m)
		if names == nil {
			ms.all = true
			continue
		}
		for n, s := range names {
			ms.heaps[n] = s
		}
	}
}

// enterLoop: assert the invariant on entry, havoc the loop's modified set,
// assume the invariant.
func (fr *Frame) enterLoop(head *ssa.BasicBlock, ord int, in *State) *State {
	ex := fr.ex
	var invs []*Clause
	var dec *Clause
	if fr.isTop && ex.fc != nil {
		invs = ex.fc.LoopInv[ord]
		dec = ex.fc.LoopDec[ord]
	}
	lc := &loopCtx{head: head, ord: ord, entry: in.clone()}
	if fr.loopCtxs == nil {
		fr.loopCtxs = map[*ssa.BasicBlock]*loopCtx{}
	}
	fr.loopCtxs[head] = lc
	// 1. invariant holds on entry
	for _, cl := range invs {
		env := ex.specEnv(fr, in, ex.entry)
		env.loopEntry = in
		g := env.evalBool(cl.Expr)
		ex.oblige("inv-init", fmt.Sprintf("loop%d%s", ord, labelSuffix(cl)), in, g, head.Instrs[0].Pos(), cl.Props)
	}
	// 2. havoc
	ms := newModSet()
	ex.scanMods(fr.fn, fr.loops.body[head], ms, 0)
	st := in.clone()
	for a := range ms.locals {
		if old, ok := st.locals[a]; ok {
			et := a.Type().Underlying().(*types.Pointer).Elem()
			_ = old
			st.locals[a] = ex.havocVal("lp_"+a.Comment, et)
		}
	}
	if ms.all || ms.maps {
		for n, s := range ex.cx.heapSorts {
			if ms.all || isMapHeap(n) {
				ms.heaps[n] = s
			}
		}
	}
	for n, s := range ms.heaps {
		st.heaps[n] = ex.cx.fresh("lh_"+n, s)
		ex.cx.heapSorts[n] = s
	}
	if ms.all {
		ex.cx.note("loop %d of %s: unknown effects, every heap havoced", ord, fr.fn.Name())
	}
	if ms.alloc || ms.all {
		ap := ex.varOf(st, "allocptr", SInt)
		nap := ex.cx.fresh("allocptr", SInt)
		ex.cx.assume(app(SBool, ">=", nap, ap))
		st.vars["allocptr"] = nap
	}
	for n, t := range st.vars {
		if n != "allocptr" && ms.all {
			st.vars[n] = ex.cx.fresh("lv_"+n, t.Sort)
		}
	}
	// 3. assume the invariant
	for _, cl := range invs {
		env := ex.specEnv(fr, st, ex.entry)
		env.loopEntry = in
		g := env.evalBool(cl.Expr)
		ex.cx.assume(implies(st.reach, g))
	}
	if dec != nil {
		env := ex.specEnv(fr, st, ex.entry)
		env.loopEntry = in
		lc.dec0 = ex.cx.name("dec", env.evalInt(dec.Expr))
		lc.hasDec = true
	}
	lc.headSt = st.clone()
	return st
}

func isMapHeap(n string) bool { return len(n) > 2 && (n[:3] == "MH!" || n[:3] == "MV!") }

func labelSuffix(cl *Clause) string {
	if cl.Label != "" {
		return ":" + cl.Label
	}
	return ""
}

// closeLoop: at a back edge the invariant must hold again and the variant
// must have decreased.
func (fr *Frame) closeLoop(head *ssa.BasicBlock, ord int, st *State, from *ssa.BasicBlock) {
	ex := fr.ex
	lc := fr.loopCtxs[head]
	if lc == nil {
		return
	}
	var invs []*Clause
	var dec *Clause
	if fr.isTop && ex.fc != nil {
		invs = ex.fc.LoopInv[ord]
		dec = ex.fc.LoopDec[ord]
	}
	pos := from.Instrs[len(from.Instrs)-1].Pos()
	if !pos.IsValid() {
		pos = head.Instrs[0].Pos()
	}
	for _, cl := range invs {
		env := ex.specEnv(fr, st, ex.entry)
		env.loopEntry = lc.entry
		g := env.evalBool(cl.Expr)
		ex.oblige("inv-pres", fmt.Sprintf("loop%d%s", ord, labelSuffix(cl)), st, g, pos, cl.Props)
	}
	if dec != nil && lc.hasDec {
		env := ex.specEnv(fr, st, ex.entry)
		env.loopEntry = lc.entry
		d := env.evalInt(dec.Expr)
		var g Term
		if ex.cx.mode == "bv" {
			g = and(app(SBool, "bvslt", d, lc.dec0), app(SBool, "bvsge", lc.dec0, bvLit(bigZero, 64)))
		} else {
			g = and(app(SBool, "<", d, lc.dec0), app(SBool, "<=", intLit(0), lc.dec0))
		}
		ex.oblige("decreases", fmt.Sprintf("loop%d", ord), st, g, pos, dec.Props)
	}
}
